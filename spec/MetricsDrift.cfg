SPECIFICATION TSpec
INVARIANT Drift_MetricsAgree
CHECK_DEADLOCK FALSE
