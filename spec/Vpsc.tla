------------------------------- MODULE Vpsc -------------------------------
(***************************************************************************)
(* Operational model of labella/vpsc.py (Solver.solve / Solver.satisfy),   *)
(* in exact rational arithmetic.                                           *)
(*                                                                         *)
(* State is only the set of ACTIVE constraints, the set of constraints     *)
(* flagged UNSATISFIABLE and control; blocks are the connected components  *)
(* of the active set, and offsets, block positions, variable positions,    *)
(* slacks, Lagrange multipliers and the cost are DERIVED from it with the  *)
(* code's own formulas (PositionStats AB/AD/A2 with scales, compute_lm).   *)
(*                                                                         *)
(* One action per critical section of the code:                            *)
(*   Split(c)        Blocks.split: a block's min-LM constraint, LM < tol   *)
(*   EndSplit        end of the split pass                                 *)
(*   Merge(c)        Blocks.merge across the most violated constraint      *)
(*   MarkUnsat(c)    cycle found / no forward constraint on the path       *)
(*   SplitBetween(c) Block.splitBetween + re-merge if still violated       *)
(*   NoMore          mostViolated() returns nothing violated               *)
(*   EndSat          return of satisfy() and the loop test of solve()      *)
(*   Retarget(d)     Solver.setDesiredPositions(d) followed by the entry   *)
(*                   of the next solve(): the block structure (active and  *)
(*                   flagged constraints) is KEPT, block positions are     *)
(*                   recomputed from the new desired positions (they are   *)
(*                   derived here, Blocks.split refreshes them in the      *)
(*                   code).  Not part of Next: a single solve() never      *)
(*                   retargets; VpscResolve.tla composes it.               *)
(*   Restart         Solver.setStartingPositions(ps) as far as it gets: it *)
(*                   resets the inactive list, clears every active flag    *)
(*                   and builds fresh singleton blocks - and then raises   *)
(*                   (the block list is not iterable); the caller catches  *)
(*                   the exception and goes on with solve().  The flags    *)
(*                   "unsatisfiable" are kept.  Like Retarget not part of  *)
(*                   Next; VpscResolve.tla composes it.                    *)
(*                                                                         *)
(* Constants that model a code-level decision:                             *)
(*   StopRule    "no-change"       stop when a satisfy() leaves the        *)
(*                                 active/unsatisfiable flags unchanged    *)
(*               "cost-stationary" |lastcost - cost| <= 1e-4 (pinned tree  *)
(*                                 and upstream WebCola)                   *)
(*   OneMerge    TRUE = the ported satisfy(): most violated constraint is  *)
(*               fetched once, so at most one merge per satisfy()          *)
(*   Det         TRUE = resolve ties with CHOOSE (used by trace specs to   *)
(*               keep the search linear); FALSE = explore every tie order  *)
(***************************************************************************)
EXTENDS Integers, Sequences, FiniteSets, TLC

CONSTANTS StopRule, OneMerge, Det

VARIABLES nv,      \* number of variables (fixed per behaviour)
          des,     \* [V -> Int]   desired positions
          wt,      \* [V -> Nat+]  weights
          sc,      \* [V -> Nat+]  scales
          cons,    \* [Id -> [l, r, g]]  constraint  sc[r]*x[r] - sc[l]*x[l] >= g ; g < 0 means "absent"
          active, unsat, pc, prev, cost, lastcost, nsat, didsplit

ivars == <<nv, des, wt, sc, cons>>
vars  == <<nv, des, wt, sc, cons, active, unsat, pc, prev, cost, lastcost, nsat, didsplit>>

V    == 1..nv
CSet == {c \in DOMAIN cons : cons[c].g >= 0}
L(c) == cons[c].l
R(c) == cons[c].r
G(c) == cons[c].g

\* ------------------------------------------------------------ rationals <<num, den>>, den > 0
RECURSIVE GCD(_, _)
GCD(a, b) == IF b = 0 THEN a ELSE GCD(b, a % b)
Abs(a) == IF a < 0 THEN -a ELSE a
Norm(n, d) == LET g == GCD(Abs(n), d) IN IF g = 0 THEN <<0, 1>> ELSE <<n \div g, d \div g>>
RAdd(a, b) == Norm(a[1]*b[2] + b[1]*a[2], a[2]*b[2])
RSub(a, b) == Norm(a[1]*b[2] - b[1]*a[2], a[2]*b[2])
RLt(a, b) == a[1]*b[2] < b[1]*a[2]
RLe(a, b) == a[1]*b[2] <= b[1]*a[2]
RInt(i) == <<i, 1>>
RAbs(a) == <<Abs(a[1]), a[2]>>
Zero == <<0, 1>>

LCM(a, b) == (a * b) \div GCD(a, b)
RECURSIVE LcmSet(_)
LcmSet(S) == IF S = {} THEN 1 ELSE LET x == CHOOSE x \in S : TRUE IN LCM(x, LcmSet(S \ {x}))
QQ == LcmSet({sc[v] * sc[v] : v \in V})     \* common multiple of the squared scales
A(v) == wt[v] * (QQ \div (sc[v] * sc[v]))    \* integer weight of v in scaled coordinates

RECURSIVE SumOver(_, _)
SumOver(S, f) == IF S = {} THEN 0 ELSE LET v == CHOOSE v \in S : TRUE IN f[v] + SumOver(TLCEval(S \ {v}), f)

\* ------------------------------------------------------------ block structure from the active set
\* scaled coordinate y[v] = sc[v]*x[v]; an active constraint c forces y[R(c)] = y[L(c)] + G(c)
RECURSIVE Grow(_, _)
Grow(f, act) ==
  LET K == DOMAIN f
      E == {c \in act : (L(c) \in K) # (R(c) \in K)}
  IN IF E = {} THEN f
     ELSE LET c  == CHOOSE c \in E : TRUE
              nw == IF L(c) \in K THEN R(c) ELSE L(c)
              vl == IF L(c) \in K THEN f[L(c)] + G(c) ELSE f[R(c)] - G(c)
          IN Grow(TLCEval(f @@ (nw :> vl)), act)

Off(act, r)  == Grow((r :> 0), act)          \* offsets of r's block, r at 0
Comp(act, v) == DOMAIN Off(act, v)
Root(act, v) == CHOOSE r \in Comp(act, v) : \A u \in Comp(act, v) : r <= u

\* block parameter  Y = BNum/BDen  (PositionStats: (AD - AB)/A2 up to the common factor QQ)
BNum(act, r) == LET o == Off(act, r) IN SumOver(DOMAIN o, [v \in DOMAIN o |-> A(v) * (des[v] * sc[v] - o[v])])
BDen(act, r) == LET o == Off(act, r) IN SumOver(DOMAIN o, [v \in DOMAIN o |-> A(v)])

YPos(act, v) == LET r == Root(act, v) o == Off(act, r) d == BDen(act, r)
                IN Norm(BNum(act, r) + o[v] * d, d)                   \* sc[v] * x[v]
Pos(act, v)  == LET y == YPos(act, v) IN Norm(y[1], y[2] * sc[v])    \* x[v] = Variable.position()

Slack(act, c) == RSub(RSub(YPos(act, R(c)), YPos(act, L(c))), RInt(G(c)))

\* Lagrange multiplier of an active constraint (Block.compute_lm):
\*   lm(c) = sum over the variables on c's right-hand side of  dfdv(v)/sc[v]
LM(act, c) == LET RS == Comp(act \ {c}, R(c))
                  r  == Root(act, R(c))
                  o  == Off(act, r)
                  n  == BNum(act, r)
                  d  == BDen(act, r)
              IN Norm(2 * SumOver(RS, [v \in RS |-> A(v) * (n + (o[v] - des[v] * sc[v]) * d)]), d * QQ)

\* cost of one block as a rational, and the total
BlockCost(act, r) == LET o == Off(act, r) n == BNum(act, r) d == BDen(act, r)
                     IN Norm(SumOver(DOMAIN o, [v \in DOMAIN o |->
                              A(v) * (n + (o[v] - des[v] * sc[v]) * d) * (n + (o[v] - des[v] * sc[v]) * d)]),
                             d * d * QQ)
RECURSIVE RSum(_, _)
RSum(S, f) == IF S = {} THEN Zero ELSE LET x == CHOOSE x \in S : TRUE IN RAdd(f[x], RSum(S \ {x}, f))
CostOf(act) == LET roots == {Root(act, v) : v \in V}
               IN RSum(roots, [r \in roots |-> BlockCost(act, r)])

\* tolerances of the code; on the integer lattice every non-zero quantity that is compared
\* against them has magnitude >= 1/(BDen*QQ) > 1e-4, so LagTol = 0- and ZeroUB = 0- exactly
CostTol == <<1, 10000>>

\* ------------------------------------------------------------ paths in the active forest
RECURSIVE DirReach(_, _, _)
DirReach(act, S, seen) == LET nxt == {R(c) : c \in {c \in act : L(c) \in S}} \ seen
                          IN IF nxt = {} THEN seen ELSE DirReach(act, nxt, seen \cup nxt)
DirPath(act, u, v) == u = v \/ v \in DirReach(act, {u}, {u})     \* isActiveDirectedPathBetween
\* active constraints on the tree path a .. b
PathEdges(act, a, b) == {c \in act : L(c) \in Comp(act, a)
                                     /\ ((a \in Comp(act \ {c}, L(c))) # (b \in Comp(act \ {c}, L(c))))}
\* those traversed from left to right when walking a -> b  (findMinLMBetween: c.right == next)
Forward(act, a, b) == {c \in PathEdges(act, a, b) : a \in Comp(act \ {c}, L(c))}

Pick(S) == IF Det THEN (IF S = {} THEN {} ELSE {CHOOSE x \in S : TRUE}) ELSE S

\* ------------------------------------------------------------ derived state, computed once per state
\* (the definitions above are the reference semantics; Derive packages them so that TLC
\*  evaluates each quantity once per state instead of once per use)
RECURSIVE AllOff(_, _, _)
AllOff(act, todo, acc) ==
  IF todo = {} THEN acc
  ELSE LET r == CHOOSE x \in todo : \A y \in todo : x <= y
           o == TLCEval(Grow((r :> 0), act))
       IN AllOff(act, TLCEval(todo \ DOMAIN o), TLCEval(acc @@ [v \in DOMAIN o |-> <<r, o[v]>>]))

\* TLCEval forces TLC to evaluate a (lazy) function value once instead of at every use
Derive(act) ==
  LET qq    == TLCEval(QQ)
      a     == TLCEval([v \in V |-> wt[v] * (qq \div (sc[v] * sc[v]))])
      ro    == TLCEval(AllOff(act, V, <<>>))              \* v |-> <<root, offset>>
      roots == TLCEval({ro[v][1] : v \in V})
      mem   == TLCEval([r \in roots |-> {v \in V : ro[v][1] = r}])
      den   == TLCEval([r \in roots |-> SumOver(mem[r], a)])
      num   == TLCEval([r \in roots |-> SumOver(mem[r], TLCEval([v \in mem[r] |-> a[v] * (des[v] * sc[v] - ro[v][2])]))])
      y     == TLCEval([v \in V |-> LET r == ro[v][1] IN Norm(num[r] + ro[v][2] * den[r], den[r])])
      slack == TLCEval([c \in CSet |-> RSub(RSub(y[R(c)], y[L(c)]), RInt(G(c)))])
      lm    == TLCEval([c \in act |->
                 LET RS == TLCEval(DOMAIN Grow((R(c) :> 0), act \ {c}))
                     r  == ro[R(c)][1]
                 IN Norm(2 * SumOver(RS, TLCEval([v \in RS |-> a[v] * (num[r] + (ro[v][2] - des[v] * sc[v]) * den[r])])),
                         den[r] * qq)])
  IN [ro |-> ro, slack |-> slack, lm |-> lm]

SameBlock(d, u, v) == d.ro[u][1] = d.ro[v][1]

\* ------------------------------------------------------------ actions
Fixed == UNCHANGED ivars

\* constraints eligible for the split pass: minimal LM of their block and LM < 0
SplittableD(d) == {c \in active : /\ RLt(d.lm[c], Zero)
                                  /\ \A e \in active : SameBlock(d, L(e), L(c)) => RLe(d.lm[c], d.lm[e])}
Splittable == SplittableD(Derive(active))

Split(c, d) ==
  /\ pc = "split" /\ c \in Pick(SplittableD(d))
  /\ active' = active \ {c} /\ didsplit' = TRUE
  /\ UNCHANGED <<unsat, pc, prev, cost, lastcost, nsat>> /\ Fixed

EndSplit(d) ==
  /\ pc = "split" /\ (didsplit \/ SplittableD(d) = {})
  /\ (Det => SplittableD(d) = {})                   \* deterministic refinement: split to the end
  /\ pc' = "merge" /\ didsplit' = FALSE
  /\ UNCHANGED <<active, unsat, prev, cost, lastcost, nsat>> /\ Fixed

CandidatesD(d)   == {c \in CSet \ (active \cup unsat) : RLt(d.slack[c], Zero)}
MostViolatedD(d) == LET K == CandidatesD(d) IN {c \in K : \A e \in K : RLe(d.slack[c], d.slack[e])}
MostViolated == MostViolatedD(Derive(active))
AfterStep    == IF OneMerge THEN "endsat" ELSE "merge"

Merge(c, d) ==
  /\ pc = "merge" /\ c \in Pick(MostViolatedD(d))
  /\ ~SameBlock(d, L(c), R(c))
  /\ active' = active \cup {c}
  /\ pc' = AfterStep /\ UNCHANGED <<unsat, prev, cost, lastcost, nsat, didsplit>> /\ Fixed

MarkUnsat(c, d) ==
  /\ pc = "merge" /\ c \in Pick(MostViolatedD(d))
  /\ SameBlock(d, L(c), R(c))
  /\ DirPath(active, R(c), L(c)) \/ Forward(active, L(c), R(c)) = {}
  /\ unsat' = unsat \cup {c}
  /\ UNCHANGED <<active, pc, prev, cost, lastcost, nsat, didsplit>> /\ Fixed

SplitBetween(c, d) ==
  /\ pc = "merge" /\ c \in Pick(MostViolatedD(d))
  /\ SameBlock(d, L(c), R(c))
  /\ ~DirPath(active, R(c), L(c))
  /\ LET F  == Forward(active, L(c), R(c))
         MS == {s \in F : \A e \in F : RLe(d.lm[s], d.lm[e])}
     IN /\ F # {}
        /\ \E s \in Pick(MS) :
             LET a2 == active \ {s}
             IN active' = IF RLe(Zero, Slack(a2, c)) THEN a2 ELSE a2 \cup {c}
  /\ pc' = AfterStep /\ UNCHANGED <<unsat, prev, cost, lastcost, nsat, didsplit>> /\ Fixed

NoMore(d) ==
  /\ pc = "merge" /\ MostViolatedD(d) = {}
  /\ pc' = "endsat" /\ UNCHANGED <<active, unsat, prev, cost, lastcost, nsat, didsplit>> /\ Fixed

EndSat ==
  /\ pc = "endsat"
  /\ nsat' = nsat + 1
  /\ IF StopRule = "no-change"
     THEN /\ pc' = IF prev = <<active, unsat>> THEN "done" ELSE "split"
          /\ prev' = <<active, unsat>>
          /\ UNCHANGED <<cost, lastcost>>
     ELSE LET c2 == CostOf(active)
          IN /\ cost' = c2 /\ lastcost' = cost
             /\ pc' = IF nsat >= 1 /\ RLe(RAbs(RSub(cost, c2)), CostTol) THEN "done" ELSE "split"
             /\ UNCHANGED prev
  /\ UNCHANGED <<active, unsat, didsplit>> /\ Fixed

Next == \/ /\ pc \in {"split", "merge"}
           /\ LET d == Derive(active)
              IN \/ \E c \in active : Split(c, d)
                 \/ EndSplit(d)
                 \/ \E c \in CSet : Merge(c, d) \/ MarkUnsat(c, d) \/ SplitBetween(c, d)
                 \/ NoMore(d)
        \/ EndSat

Retarget(d) ==
  /\ pc = "done"
  /\ des' = d /\ pc' = "split" /\ prev' = <<>> /\ nsat' = 0 /\ didsplit' = FALSE
  /\ cost' = <<-1, 1>> /\ lastcost' = <<-1, 1>>
  /\ UNCHANGED <<nv, wt, sc, cons, active, unsat>>

Restart ==
  /\ pc = "done"
  /\ active' = {} /\ pc' = "split" /\ prev' = <<>> /\ nsat' = 0 /\ didsplit' = FALSE
  /\ cost' = <<-1, 1>> /\ lastcost' = <<-1, 1>>
  /\ UNCHANGED <<nv, des, wt, sc, cons, unsat>>

Control0 == /\ active = {} /\ unsat = {} /\ pc = "split" /\ prev = <<>>
            /\ cost = <<-1, 1>> /\ lastcost = <<-1, 1>> /\ nsat = 0 /\ didsplit = FALSE

\* ------------------------------------------------------------ properties (C05)
Acyclic == \A v \in V : ~\E c \in CSet : L(c) = v /\ DirPath(CSet, R(c), v)

Feasible == pc = "done" => \A c \in CSet \ unsat : RLe(Zero, Slack(active, c))
NoFlagInDag == (pc = "done" /\ Acyclic) => unsat = {}
\* sufficient KKT certificate: x is feasible, multipliers of the active forest are >= 0
Certified == pc = "done" => \A c \in active : RLe(Zero, LM(active, c))
Forest == \A c \in active : Comp(active \ {c}, L(c)) # Comp(active \ {c}, R(c))
\* brute force: no feasible forest of tight constraints does better (the optimum of the QP is
\* attained on some forest of tight constraints, so this is "no feasible assignment is better")
IsForest(F) == \A c \in F : Comp(F \ {c}, L(c)) # Comp(F \ {c}, R(c))
FeasUnder(F) == \A c \in CSet : RLe(Zero, Slack(F, c))
TrueOpt == (pc = "done" /\ unsat = {}) =>
             \A F \in SUBSET CSet : (IsForest(F) /\ FeasUnder(F)) => RLe(CostOf(active), CostOf(F))
Bound == nsat <= 8 * nv + 8
Terminates == <>(pc = "done")
=============================================================================
