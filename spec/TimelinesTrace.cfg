SPECIFICATION TSpec
CONSTANTS
  Ids = {1, 2, 3, 4}
  Cfgs = {"c1", "c2", "c3", "c4", "c5", "c6", "r1", "r2", "r3", "r4"}
  OwnScaleCfgs = {"c3"}
  ReadsSharedDirection = FALSE
  ShareDefaultScale = FALSE
  MaxLen = 64
INVARIANT C10_Defined
INVARIANT C10_Isolation
INVARIANT C10_Idempotent
INVARIANT ModelAgrees
CHECK_DEADLOCK TRUE
