SPECIFICATION TSpec
CONSTANTS
  Ids = {1, 2, 3, 4}
  Cfgs = {"c1", "c2", "c3", "c4", "c5", "c6", "c7", "c8", "c9", "c10", "c11", "c12", "c13", "r1", "r2", "r3", "r4", "r5", "r6", "r7", "r8"}
  OwnScaleCfgs = {"c3"}
  NiceSensitive = {"c7", "c8", "c9"}
  NoOptCfgs = {"c7", "c9", "c10", "c11"}
  ShareWhenOmitted = FALSE
  FitAxisAtExport = FALSE
  ReadsSharedDirection = FALSE
  ShareDefaultScale = FALSE
  MaxLen = 64
INVARIANT C10_Defined
INVARIANT C10_Isolation
INVARIANT C10_Idempotent
INVARIANT ModelAgrees
CHECK_DEADLOCK TRUE
