SPECIFICATION Spec
CONSTANTS
  Ids = {1, 2}
  Cfgs = {"c1", "c2", "c3", "c4"}
  OwnScaleCfgs = {"c3"}
  ShareDefaultScale = TRUE
  MaxLen = 4
INVARIANT Isolation
PROPERTY Idempotent
CHECK_DEADLOCK FALSE
