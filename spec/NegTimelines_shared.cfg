SPECIFICATION Spec
CONSTANTS
  Ids = {1, 2}
  Cfgs = {"c1", "c2", "c3", "c5", "c6"}
  OwnScaleCfgs = {"c3"}
  ReadsSharedDirection = FALSE
  ShareDefaultScale = TRUE
  MaxLen = 4
INVARIANT Isolation
PROPERTY Idempotent
CHECK_DEADLOCK FALSE
