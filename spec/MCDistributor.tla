---------------------------- MODULE MCDistributor ----------------------------
(* Design-level check of the layering algorithms (C04): every sequence of up   *)
(* to NMax labels over a lattice x every option combination.                  *)
EXTENDS Distributor, SequencesExt
CONSTANTS NMax, Ideals, Widths, LWs, Dens, NSs, SWs, Algs, NB
LabelSet == [ideal : Ideals, w : Widths]
Seqs == UNION {[1..n -> LabelSet] : n \in 1..NMax}
WithIds(s) == [i \in 1..Len(s) |-> [id |-> i, ideal |-> s[i].ideal, w |-> s[i].w]]
OptSet == {[alg |-> a, hasLW |-> (IF l = 0 THEN 0 ELSE 1), lw |-> l, densN |-> d[1], densD |-> d[2], ns |-> n, sw |-> w] :
             a \in Algs, l \in LWs, d \in Dens, n \in NSs, w \in SWs}
\* (the product is indexed arithmetically: TLC refuses to enumerate a set of more than 10^6 elements)
SeqSeq == SetToSeq(Seqs)
OptSeq == SetToSeq(OptSet)
NO == Len(OptSeq)
NInst == Len(SeqSeq) * NO
VARIABLES i, stop
vars == <<i, stop>>
Blk == NInst \div NB + 1
MinI(a, b) == IF a < b THEN a ELSE b
Init == \E k \in 0..(NB - 1) : i = 1 + k * Blk /\ stop = MinI((k + 1) * Blk, NInst) /\ i <= NInst
Next == i < stop /\ i' = i + 1 /\ UNCHANGED stop
Spec == Init /\ [][Next]_vars
Labels == WithIds(SeqSeq[((i - 1) \div NO) + 1])
O == OptSeq[((i - 1) % NO) + 1]
L == Distribute(Labels, O)
DensSet == {<<1, 2>>, <<1, 1>>, <<17, 20>>}
Conservation == ConservationD(Labels, L)
Capacity == CapacityD(Labels, L, O)
SingleLayer == SingleLayerD(Labels, L, O)
NoEmptyInnerLayer == NoEmptyInnerLayerD(L)
\* negative self-test: "every layer within budget" without the two-label escape clause is false
CapacityNoEscape == (O.alg = "overlap" /\ O.hasLW = 1 /\ TooWide(Req(Labels, O), O)) => \A k \in 1..Len(L) : ~TooWide(LayerReq(L, k, O), O)
=============================================================================
