SPECIFICATION TSpec
INVARIANT C13_Defined
INVARIANT C13_StepForm
INVARIANT C13_Multiples
INVARIANT C13_InDomain
INVARIANT C13_InDomainUpToFloatNoise
INVARIANT C13_Complete
INVARIANT C13_CountBounds
INVARIANT C13_LabelsDistinct
INVARIANT C13_LabelsReadBack
CHECK_DEADLOCK FALSE
