------------------------------ MODULE TimeDrift ------------------------------
(* Conformance of the OPERATIONAL tick model (TimeTicks.tla) with the ticks    *)
(* observed from the real TimeScale.ticks().  A mismatch is specification      *)
(* drift (reported in the evidence), never a verdict: the properties are       *)
(* decided by the declarative predicates of TimeTrace.tla.                     *)
EXTENDS TimeTicks, Json, IOUtils
Trace == ndJsonDeserialize(IOEnv.TRACE_FILE)
VARIABLE r
TInit == r \in 1..Len(Trace)
TNext == UNCHANGED r
TSpec == TInit /\ [][TNext]_r
T == Trace[r]
I2(x) == <<x[1], x[2]>>
D0 == I2(T.dom[1])
D1 == I2(T.dom[2])
Lo == IF TLe(D0, D1) THEN D0 ELSE D1
Hi == IF TLe(D0, D1) THEN D1 ELSE D0
Obs == [i \in 1..Len(T.ticks) |-> I2(T.ticks[i])]
Drift_ModelExplainsTicks == (T.kind = "tticks" /\ T.err = "" /\ Lo # Hi) =>
    \E me \in TickMethods(Lo, Hi, T.m) : Ticks(Lo, Hi, me) = Obs
N2(x) == <<x[1], x[2]>>
NObs == IF TLe(N2(T.niced[1]), N2(T.niced[2])) THEN <<N2(T.niced[1]), N2(T.niced[2])>> ELSE <<N2(T.niced[2]), N2(T.niced[1])>>
Drift_ModelExplainsNice == (T.kind = "tnice" /\ T.err = "" /\ Lo # Hi) =>
    /\ T.niced[1][3] = 0 /\ T.niced[2][3] = 0
    /\ NObs \in NiceDomains(Lo, Hi, T.m)
=============================================================================
