------------------------------ MODULE MCVpsc ------------------------------
(* Bounded instance spaces for Vpsc.tla: exhaustive (set-valued Init) and   *)
(* staged generation for -simulate (one field chosen per GenStep).          *)
EXTENDS Vpsc, SequencesExt

CONSTANTS N, Des, Gaps, Weights, Scales, AllowCycles

NV == 1..N
Pairs == IF AllowCycles THEN {p \in NV \X NV : p[1] # p[2]} ELSE {p \in NV \X NV : p[1] < p[2]}
ConsOf(gap) == [p \in Pairs |-> [l |-> p[1], r |-> p[2], g |-> gap[p]]]

Init == /\ nv = N
        /\ des \in [NV -> Des]
        /\ wt \in [NV -> Weights]
        /\ sc \in [NV -> Scales]
        /\ \E gap \in [Pairs -> Gaps \cup {-1}] : cons = ConsOf(gap)
        /\ Control0

Spec == Init /\ [][Next]_vars /\ WF_vars(Next)
\* safety-only variant with an explicit final stutter, so that TLC's deadlock check
\* means "no state other than done is stuck"; with Bound this gives termination
Stutter == pc = "done" /\ UNCHANGED vars
NextD == Next \/ Stutter
SpecD == Init /\ [][NextD]_vars

\* ---- staged generation (for -simulate): pc = "gen", nsat counts the fields chosen so far
PairSeq == SetToSeq(Pairs)
NP == Cardinality(Pairs)
InitSim == /\ nv = N
           /\ des = [v \in NV |-> 0] /\ wt = [v \in NV |-> 1] /\ sc = [v \in NV |-> 1]
           /\ cons = ConsOf([p \in Pairs |-> -1])
           /\ active = {} /\ unsat = {} /\ pc = "gen" /\ prev = <<>>
           /\ cost = <<-1, 1>> /\ lastcost = <<-1, 1>> /\ nsat = -(N + NP) /\ didsplit = FALSE
GenStep == /\ pc = "gen"
           /\ LET k == nsat + N + NP + 1 IN
              IF k <= N
              THEN /\ \E d \in Des, w \in Weights, s \in Scales :
                        /\ des' = [des EXCEPT ![k] = d] /\ wt' = [wt EXCEPT ![k] = w]
                        /\ sc' = [sc EXCEPT ![k] = s]
                   /\ cons' = cons /\ pc' = "gen"
              ELSE /\ \E g \in Gaps \cup {-1} :
                        cons' = [cons EXCEPT ![PairSeq[k - N]].g = g]
                   /\ UNCHANGED <<des, wt, sc>>
                   /\ pc' = IF k = N + NP THEN "split" ELSE "gen"
           /\ nsat' = nsat + 1
           /\ UNCHANGED <<nv, active, unsat, prev, cost, lastcost, didsplit>>
\* the 6-variable instance on which the cost-stationary stop rule ends infeasible
\* (found by -simulate while designing; kept as a negative self-test)
OneGap(p) == CASE p = <<1,2>> -> 2 [] p = <<1,3>> -> 2 [] p = <<1,4>> -> 1 [] p = <<2,3>> -> 1
               [] p = <<2,5>> -> 0 [] p = <<2,6>> -> 3 [] p = <<3,4>> -> 2 [] p = <<4,6>> -> 1
               [] p = <<5,6>> -> 2 [] OTHER -> -1
InitOne == /\ nv = 6 /\ des = <<3,2,2,0,1,2>> /\ wt = <<1,1,3,1,1,1>> /\ sc = <<1,1,1,1,1,1>>
           /\ cons = [p \in {q \in (1..6) \X (1..6) : q[1] < q[2]} |-> [l |-> p[1], r |-> p[2], g |-> OneGap(p)]]
           /\ Control0
NextSim == GenStep \/ Next
SimBound == nsat <= 8 * nv + 8
\* ---- reachability witnesses (vacuity guards): each of these properties must be VIOLATED by the configuration that is
\* supposed to exercise the action - an action that is never taken means that the invariants were never tested against it
Reach_Split == [][~(\E c \in CSet : Split(c, Derive(active)))]_vars
Reach_Merge == [][~(\E c \in CSet : Merge(c, Derive(active)))]_vars
Reach_SplitBetween == [][~(\E c \in CSet : SplitBetween(c, Derive(active)))]_vars
Reach_MarkUnsat == [][~(\E c \in CSet : MarkUnsat(c, Derive(active)))]_vars
\* a second satisfy round that changes the active set (what the cost-stationary stop rule used to miss)
Reach_SecondRoundChanges == [][~(pc = "endsat" /\ nsat >= 1 /\ prev # <<active, unsat>> /\ EndSat)]_vars
=========================================================================
