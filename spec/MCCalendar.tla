----------------------------- MODULE MCCalendar -----------------------------
(* Self-consistency of Calendar.tla on every day of a range: the civil        *)
(* conversion is a bijection that advances like a calendar, weekdays cycle,   *)
(* and the functional Floor/Ceil/Round/Offset satisfy the declarative         *)
(* predicates for every unit at several times of day.                         *)
EXTENDS Calendar
CONSTANTS NegDayLo, DayHi, Times, KMax
VARIABLES day, stop
\* (TLC evaluates invariants of initial states on one thread: the range is cut into 64 blocks that are
\*  walked day by day, so that the workers share the load)
NB == 256
Lo == -NegDayLo
Blk == (DayHi - Lo) \div NB + 1
Min2(a, b) == IF a < b THEN a ELSE b
Init == \E i \in 0..(NB - 1) : day = Lo + i * Blk /\ stop = Min2(Lo + (i + 1) * Blk - 1, DayHi) /\ day <= DayHi
Next == day < stop /\ day' = day + 1 /\ UNCHANGED stop
Spec == Init /\ [][Next]_<<day, stop>>

C == CivilFromDays(day)
RoundTrip == DaysFromCivil(C[1], C[2], C[3]) = day /\ C[2] \in 1..12 /\ C[3] \in 1..DaysInMonth(C[1], C[2])
Advances == LET n == CivilFromDays(day + 1) IN
              IF C[3] < DaysInMonth(C[1], C[2]) THEN n = <<C[1], C[2], C[3] + 1>>
              ELSE IF C[2] < 12 THEN n = <<C[1], C[2] + 1, 1>> ELSE n = <<C[1] + 1, 1, 1>>
\* the calendar repeats every 400 years = 146 097 days = 20 871 weeks: the conversion functions use the era only as an additive
\* term (zz \div 146097, era * 146097, era * 400), so a result for every day of ONE era (MCCalendar_era.cfg) carries over to every
\* other era; checked here for 12 eras to either side (9 600 years)
ERA == 146097
EraNegLo == -11017              \* (a cfg file cannot spell a negative number) Lo = 2000-03-01
EraShift == \A k \in -12..12 : /\ CivilFromDays(day + k * ERA) = <<C[1] + 400 * k, C[2], C[3]>>
                               /\ Weekday(day + k * ERA) = Weekday(day)
                               /\ DaysInMonth(C[1] + 400 * k, C[2]) = DaysInMonth(C[1], C[2])
WeekCycle == Weekday(day + 1) = (Weekday(day) + 1) % 7 /\ Weekday(0) = 4 /\ Weekday(day) \in 0..6
Instants == {<<day, ms>> : ms \in Times}
FloorOK == \A u \in Units, t \in Instants : IsFloor(u, t, Floor(u, t))
CeilOK == \A u \in Units, t \in Instants : IsCeil(u, t, Ceil(u, t))
RoundOK == \A u \in Units, t \in Instants : LET r == Round(u, t) IN
              /\ IsBoundary(u, r) /\ IsRound(u, t, r)
              /\ (r = Floor(u, t) \/ r = Succ(u, Floor(u, t)))
\* Succ is the NEXT boundary: a boundary, later, nothing in between
SuccOK == \A u \in Units, t \in Instants : LET b == Floor(u, t) n == Succ(u, b) IN
              IsBoundary(u, n) /\ TLt(b, n) /\ Floor(u, AddMs(n, -1)) = b
\* Offset(b, k) is the k-th following boundary
OffsetOK == \A u \in Units, t \in Instants : LET b == Floor(u, t) IN
              \A k \in 0..KMax : Offset(u, b, k + 1) = Succ(u, Offset(u, b, k)) /\ Offset(u, b, 0) = b
=============================================================================
