SPECIFICATION Spec
CONSTANTS
  MaxLen = 4
  AccentAppliesTo = "next"
INVARIANT RoundTrip
CHECK_DEADLOCK FALSE
