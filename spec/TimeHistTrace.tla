---------------------------- MODULE TimeHistTrace ----------------------------
(* Binding of the scale heap model (LinScale.tla) to labella.scale.TimeScale  *)
(* objects (C15, history part).  A TimeScale owns one LinearScale; domain(),  *)
(* range(), clamp(), nice() and copy() delegate to it, so the heap model of   *)
(* the linear scale is also the model of the time scale.  One ndjson record = *)
(* one call history played on real TimeScale objects (driver d_timescale.py,  *)
(* mode "hist"); after every call the driver logs every scale's observation.  *)
(*                                                                            *)
(* Besides the calls of LinHistTrace the histories contain "T": ticks(m), an  *)
(* observer - the model takes a step that changes nothing.                    *)
EXTENDS LinHistTrace

TickStep == /\ l <= Len(Ev) /\ Ev[l].a = "T"
            /\ actor' = Ev[l].i /\ UNCHANGED <<scales, cells, h, tid>> /\ l' = l + 1
T2Next == Step \/ TickStep \/ Finished
T2Spec == TInit /\ [][T2Next]_tvars

\* ---- verdict clause (C15): after any history every time scale maps the two instants of the domain it reports
\*      exactly onto the two end points of the range it reports
C15_CallsComplete == l > 1 => Last.err = ""
C15_EndpointsMapAfterHistory == l > 1 => \A s \in 1..Len(Last.obs) : Last.obs[s].e0 = 1 /\ Last.obs[s].e1 = 1
\* ... and invert takes the range end points back to the domain end points the scale reports (to within a millisecond)
C15_InvertAfterHistory == l > 1 => \A s \in 1..Len(Last.obs) : Last.obs[s].v0 = 1 /\ Last.obs[s].v1 = 1

\* ---- conformance of the heap model (drift, never a verdict)
\* an action on one scale leaves every observation of every other scale unchanged; ticks() changes nothing at all
Drift_CopyIndependent == l > 1 => \A s \in 1..Len(Prev) : (s # actor \/ Last.a = "T") => Last.obs[s] = Prev[s]
\* scales the model holds equal are observed equal
ModelObs(s) == <<cells[scales[s].dom], cells[scales[s].rng], scales[s].clamp>>
Drift_EqualInModelEqualObserved == (l > 1 /\ Len(Last.obs) = NS) =>
    \A s, t \in 1..NS : ModelObs(s) = ModelObs(t) => Last.obs[s] = Last.obs[t]
=============================================================================
