SPECIFICATION TSpec
CONSTANTS
  MaxScales = 4
  MaxLen = 64
  RescaleOnSameList = TRUE
  KeepCallersList = FALSE
  ShareListsOnCopy = FALSE
  Doms = {"dA", "dB", "dC"}
  Rngs = {"rA", "rB"}
  NiceMs = {"10", "2"}
INVARIANT C12_CallsComplete
INVARIANT C12_EndpointsMap
INVARIANT C12_InvertAfterHistory
INVARIANT C12_CopyIndependent
INVARIANT SameShape
CHECK_DEADLOCK TRUE
