SPECIFICATION TSpec
INVARIANT Drift_ModelExplainsLayering
CHECK_DEADLOCK FALSE
