SPECIFICATION TSpec
CONSTANTS
  Choice = "geometric"
INVARIANT Drift_ModelExplainsTicks
CHECK_DEADLOCK FALSE
