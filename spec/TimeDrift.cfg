SPECIFICATION TSpec
CONSTANTS
  Choice = "geometric"
INVARIANT Drift_ModelExplainsTicks
INVARIANT Drift_ModelExplainsNice
CHECK_DEADLOCK FALSE
