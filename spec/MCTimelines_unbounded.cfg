SPECIFICATION Spec
CONSTANTS
  Ids = {1, 2, 3}
  Cfgs = {"c1", "c2", "c3", "c5", "c6", "c7"}
  OwnScaleCfgs = {"c3"}
  NiceSensitive = {"c7"}
  NoOptCfgs = {"c7", "c9", "c10", "c11"}
  ShareWhenOmitted = FALSE
  FitAxisAtExport = FALSE
  ReadsSharedDirection = FALSE
  ShareDefaultScale = FALSE
  MaxLen = 1000000
INVARIANT Isolation
PROPERTY Idempotent
VIEW View
CHECK_DEADLOCK FALSE
