SPECIFICATION TSpec
INVARIANT C09_SameCounts
INVARIANT C09_SameAxis
INVARIANT C09_SameBoxes
INVARIANT C09_SameLinks
INVARIANT C09_SameDots
INVARIANT C09_SameTicks
INVARIANT C09_SameColours
INVARIANT C09_SameTexts
CHECK_DEADLOCK FALSE
