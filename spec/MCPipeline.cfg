SPECIFICATION Spec
CONSTANTS
  OptionsNoneHandled = TRUE
  DegenerateDomainHandled = TRUE
  DegenerateTickFormatHandled = TRUE
  IntegerMsStep = TRUE
  DayStepByTimedelta = TRUE
INVARIANT Total
PROPERTY Completes
CHECK_DEADLOCK TRUE
