SPECIFICATION Spec
CONSTANTS
  NegDayLo = 25567
  DayHi = 84005
  Times = {0, 1, 43200000, 86399999}
  KMax = 24
INVARIANT RoundTrip
INVARIANT Advances
INVARIANT WeekCycle
INVARIANT EraShift
INVARIANT FloorOK
INVARIANT CeilOK
INVARIANT RoundOK
INVARIANT SuccOK
INVARIANT OffsetOK
CHECK_DEADLOCK FALSE
