-------------------------------- MODULE MCTex --------------------------------
(* Design-level check of the uni2tex transducer over an abstract alphabet of  *)
(* nine character classes (one concrete representative each): all strings up  *)
(* to MaxLen.  AccentAppliesTo = "previous" is the repaired algorithm (a      *)
(* combining mark accents the character BEFORE it); "next" is the pinned      *)
(* tree's loop (accent applied to the following character, no bounds check).  *)
EXTENDS Tex
CONSTANTS MaxLen, AccentAppliesTo

Ch(cp, mark, dec) == [cp |-> cp, mark |-> mark, dec |-> dec]
Alphabet == { Ch(97, 0, <<>>),            \* ASCII letter
              Ch(123, 0, <<>>),           \* TeX special {
              Ch(769, 1, <<>>),           \* listed combining mark (acute)
              Ch(790, 1, <<>>),           \* unlisted combining mark (grave below)
              Ch(233, 0, <<101, 769>>),   \* precomposed, listed accent:  e + acute
              Ch(417, 0, <<111, 795>>),   \* precomposed, unlisted mark:  o + horn
              Ch(472, 0, <<252, 769>>),   \* precomposed whose base is precomposed: u-diaeresis + acute
              Ch(8230, 0, <<>>),          \* compatibility decomposition only (ellipsis)
              Ch(20013, 0, <<>>) }        \* undecomposable non-ASCII
Tab == << [cp |-> 769, nfd |-> <<769>>, ccc |-> 230], [cp |-> 790, nfd |-> <<790>>, ccc |-> 220],
          [cp |-> 795, nfd |-> <<795>>, ccc |-> 216], [cp |-> 776, nfd |-> <<776>>, ccc |-> 230],
          [cp |-> 233, nfd |-> <<101, 769>>, ccc |-> 0], [cp |-> 417, nfd |-> <<111, 795>>, ccc |-> 0],
          [cp |-> 472, nfd |-> <<117, 776, 769>>, ccc |-> 0], [cp |-> 252, nfd |-> <<117, 776>>, ccc |-> 0] >>

Listed(c) == c.mark = 1 /\ c.cp \in AccentMarks
\* the transducer; result [ok, out]
RECURSIVE Run(_, _, _)
Run(in, i, out) ==
    IF i > Len(in) THEN [ok |-> TRUE, out |-> out]
    ELSE LET c == in[i] IN
      IF AccentAppliesTo = "previous"
      THEN IF i < Len(in) /\ c.mark = 0 /\ Listed(in[i + 1])
           THEN Run(in, i + 2, out \o AccentToken(in[i + 1].cp, c.cp))
           ELSE IF Len(c.dec) = 2 /\ c.dec[2] \in AccentMarks
                THEN Run(in, i + 1, out \o AccentToken(c.dec[2], c.dec[1]))
                ELSE Run(in, i + 1, Append(out, c.cp))
      ELSE IF Listed(c)
           THEN IF i = Len(in) THEN [ok |-> FALSE, out |-> out]                 \* txt[i + 1]: IndexError
                ELSE Run(in, i + 2, out \o AccentToken(c.cp, in[i + 1].cp))
           ELSE IF Len(c.dec) = 2 /\ c.dec[2] \in AccentMarks
                THEN Run(in, i + 1, out \o AccentToken(c.dec[2], c.dec[1]))
                ELSE Run(in, i + 1, Append(out, c.cp))

VARIABLE s
Init == s = <<>>
Next == Len(s) < MaxLen /\ \E c \in Alphabet : s' = Append(s, c)
Spec == Init /\ [][Next]_s
R == Run(s, 1, <<>>)
Defined == R.ok
AsciiUntouched == (R.ok /\ IsAscii(s)) => R.out = Cps(s)
OnlyAccentsReplaced == R.ok => Explained(s, R.out)
RoundTrip == R.ok => RoundTrips(s, R.out, Tab)
=============================================================================
