SPECIFICATION Spec
CONSTANTS
  MaxLen = 4
  AccentAppliesTo = "previous"
INVARIANT Defined
INVARIANT AsciiUntouched
INVARIANT OnlyAccentsReplaced
INVARIANT RoundTrip
CHECK_DEADLOCK FALSE
