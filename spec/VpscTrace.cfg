SPECIFICATION TSpec
CONSTANTS
  StopRule = "no-change"
  OneMerge = TRUE
  Det = TRUE
INVARIANT C05_Feasible
INVARIANT C05_Terminates
INVARIANT C05_NoFlagInDag
INVARIANT C05_Optimal
INVARIANT C05_CostConsistent
INVARIANT ModelCertified
INVARIANT TBound
CHECK_DEADLOCK TRUE
