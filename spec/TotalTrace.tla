----------------------------- MODULE TotalTrace -----------------------------
(* Binding for C11: one record per concretised descriptor: the outcome of     *)
(* TimelineSVG(...).export() and TimelineTex(...).export() ("ok" or the       *)
(* exception type), and the dot positions of the SVG for degenerate domains.  *)
EXTENDS Pipeline, Json, IOUtils
Trace == ndJsonDeserialize(IOEnv.TRACE_FILE)
VARIABLE r
T == Trace[r]
DD == [count |-> T.desc.count, ttype |-> T.desc.ttype, arr |-> T.desc.arr, span |-> T.desc.span, opts |-> T.desc.opts,
      dir |-> T.desc.dir, alg |-> T.desc.alg, bounds |-> T.desc.bounds, ticks |-> T.desc.ticks = 1, cluster |-> T.desc.cluster]
D == desc
TInit == r \in 1..Len(Trace) /\ desc = DD /\ pc = "merge"
TNext == UNCHANGED <<r, desc, pc>>
TSpec == TInit /\ [][TNext]_<<r, desc, pc>>
WellTyped == D \in Desc
C11_Total == InClaim(D) => T.svg = "ok" /\ T.tikz = "ok"
\* a degenerate time domain places all dots at the start of the axis
C11_DegenerateAtStart == (InClaim(D) /\ T.degenerate = 1 /\ T.svg = "ok") => \A i \in 1..Len(T.dots5) : T.dots5[i] = 0
\* outside the claim (recorded as a known finding while it still raises): clusters beyond the recursion limit
C11_LargeClusterCompletes == D.cluster = "c400" => T.svg = "ok" /\ T.tikz = "ok"
=============================================================================
