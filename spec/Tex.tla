--------------------------------- MODULE Tex ---------------------------------
(***************************************************************************)
(* labella/tex.py uni2tex (C19) as a relation between an annotated input   *)
(* text and the output text.                                               *)
(*                                                                         *)
(* Input characters carry the Unicode facts the property talks about       *)
(* (taken from Python's unicodedata: trusted data, no logic):              *)
(*   cp    code point                                                      *)
(*   mark  1 iff general category Mn or Mc                                 *)
(*   dec   the character's own canonical decomposition mapping (one level, *)
(*         <<>> when it has none or only a compatibility mapping)          *)
(* and the record has a table  tab  with the full canonical decomposition  *)
(* (nfd) and the combining class (ccc) of every code point involved.       *)
(*                                                                         *)
(* Explains(in, out): out is obtained from in by copying characters and by *)
(* replacing an accented character - a precomposed one whose own canonical *)
(* decomposition is <<base, listed mark>>, or a non-mark character followed*)
(* by a listed mark - with \acc{base} for THAT character's base.           *)
(***************************************************************************)
EXTENDS Integers, Sequences, FiniteSets, TLC

\* the 15 accents of tex.py: combining mark -> TeX accent character
AccentMarks == {768, 769, 770, 776, 779, 771, 807, 808, 772, 817, 775, 803, 778, 774, 780}
AccentOf(m) == CASE m = 768 -> 96  [] m = 769 -> 39  [] m = 770 -> 94  [] m = 776 -> 34  [] m = 779 -> 72
                 [] m = 771 -> 126 [] m = 807 -> 99  [] m = 808 -> 107 [] m = 772 -> 61  [] m = 817 -> 98
                 [] m = 775 -> 46  [] m = 803 -> 100 [] m = 778 -> 114 [] m = 774 -> 117 [] OTHER -> 118
AccentToken(m, base) == <<92, AccentOf(m), 123, base, 125>>          \* \ acc { base }

PrefixAt(out, j, tok) == j + Len(tok) - 1 <= Len(out) /\ SubSeq(out, j, j + Len(tok) - 1) = tok

\* Explain(in, i, out, j): set of decoded continuations (sequences of code points read back from out[j..])
\* for which out[j..] is explained by in[i..].  Empty set = not explained.
RECURSIVE Explain(_, _, _, _)
Explain(in, i, out, j) ==
    IF i > Len(in) THEN (IF j > Len(out) THEN {<<>>} ELSE {})
    ELSE
      LET c == in[i]
          \* (A) copied verbatim
          A == IF j <= Len(out) /\ out[j] = c.cp
               THEN {<<c.cp>> \o rest : rest \in Explain(in, i + 1, out, j + 1)} ELSE {}
          \* (B) precomposed character with a listed accent: its own base, its own mark
          B == IF Len(c.dec) = 2 /\ c.dec[2] \in AccentMarks /\ PrefixAt(out, j, AccentToken(c.dec[2], c.dec[1]))
               THEN {<<c.dec[1], c.dec[2]>> \o rest : rest \in Explain(in, i + 1, out, j + 5)} ELSE {}
          \* (C) a non-mark character followed by a listed combining mark
          C == IF i < Len(in) /\ c.mark = 0 /\ in[i + 1].cp \in AccentMarks /\ in[i + 1].mark = 1
                  /\ PrefixAt(out, j, AccentToken(in[i + 1].cp, c.cp))
               THEN {<<c.cp, in[i + 1].cp>> \o rest : rest \in Explain(in, i + 2, out, j + 5)} ELSE {}
      IN A \cup B \cup C

Explained(in, out) == Explain(in, 1, out, 1) # {}

\* ---------------------------------------------------------------- canonical equivalence (NFD)
Row(tab, cp) == CHOOSE k \in 1..Len(tab) : tab[k].cp = cp
Known(tab, cp) == \E k \in 1..Len(tab) : tab[k].cp = cp
NfdOf(tab, cp) == IF Known(tab, cp) THEN tab[Row(tab, cp)].nfd ELSE <<cp>>
CccOf(tab, cp) == IF Known(tab, cp) THEN tab[Row(tab, cp)].ccc ELSE 0
RECURSIVE Flat(_, _, _)
Flat(tab, s, i) == IF i > Len(s) THEN <<>> ELSE NfdOf(tab, s[i]) \o Flat(tab, s, i + 1)
\* canonical ordering: stable sort of every run of characters with ccc > 0 by ccc (insertion of one element)
RECURSIVE Insert(_, _, _)
Insert(tab, acc, x) ==      \* insert x into acc moving it left past characters of strictly greater, non-zero class
    IF acc = <<>> THEN <<x>>
    ELSE LET y == acc[Len(acc)]
         IN IF CccOf(tab, x) > 0 /\ CccOf(tab, y) > CccOf(tab, x)
            THEN Append(Insert(tab, SubSeq(acc, 1, Len(acc) - 1), x), y)
            ELSE Append(acc, x)
RECURSIVE Reorder(_, _, _, _)
Reorder(tab, s, i, acc) == IF i > Len(s) THEN acc ELSE Reorder(tab, s, i + 1, Insert(tab, acc, s[i]))
NFD(tab, s) == Reorder(tab, Flat(tab, s, 1), 1, <<>>)

Cps(in) == [k \in 1..Len(in) |-> in[k].cp]
IsAscii(in) == \A k \in 1..Len(in) : in[k].cp < 128
\* reading the accent commands back as combining marks reproduces the text up to canonical equivalence
RoundTrips(in, out, tab) == \E d \in Explain(in, 1, out, 1) : NFD(tab, d) = NFD(tab, Cps(in))
=============================================================================
