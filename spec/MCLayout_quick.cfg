SPECIFICATION Spec
CONSTANTS
  NMax = 2
  Ideals = {0, 4, 6, 8, 18}
  Widths = {4, 14}
  Mins <- MinSetQ
  Maxs <- MaxSet
  Dens <- DensSetQ
  NSs = {0, 4}
  SWs = {0, 4}
  Algs = {"overlap", "simple", "none"}
  NB = 256
INVARIANT ModelOrdered
INVARIANT ModelSeparatedAdjacent
INVARIANT ModelInsideWhenFits
INVARIANT ModelSpillKeepsSeparation
INVARIANT ModelWithinHalf
INVARIANT ModelChains
CHECK_DEADLOCK FALSE
