SPECIFICATION TSpec
INVARIANT C15_Proportional
INVARIANT C15_EndpointsMap
INVARIANT C15_StrictlyMonotone
INVARIANT C15_InvertWithin1ms
INVARIANT C15_AgreesWithLinear
CHECK_DEADLOCK FALSE
