------------------------------ MODULE NodeTrace ------------------------------
(* Conformance of the node heap model (NodeHeap.tla) with labella.node.Node:   *)
(* one ndjson record = one call history played on real Node objects (driver    *)
(* d_node.py); after every call the driver logs, for every node created so     *)
(* far, what its observers return (isStub, path to the root, root, path        *)
(* length, edges, displacement, layer index) and, for one pair of nodes, the   *)
(* pairwise helpers.  TLC steps the model along the calls and compares.        *)
(* No listed property is decided here: a mismatch is specification drift.      *)
EXTENDS NodeHeap, Json, IOUtils

Trace == ndJsonDeserialize(IOEnv.TRACE_FILE)
VARIABLES tid, l
tvars == <<vars, tid, l>>
Ev == Trace[tid].ev
TInit == tid \in 1..Len(Trace) /\ l = 1 /\ Init
Step == /\ l <= Len(Ev)
        /\ LET e == Ev[l] IN
             \/ (e.a = "N" /\ New(e.x, e.y))
             \/ (e.a = "S" /\ CreateStub(e.n, e.x))
             \/ (e.a = "R" /\ RemoveStub(e.n))
             \/ (e.a = "M" /\ Move(e.n, e.x))
             \/ (e.a = "I" /\ MoveToIdeal(e.n))
             \/ (e.a = "C" /\ Clone(e.n))
        /\ l' = l + 1 /\ UNCHANGED tid
Finished == l > Len(Ev) /\ UNCHANGED tvars
TNext == Step \/ Finished
TSpec == TInit /\ [][TNext]_tvars

Last == Ev[l - 1]
Drift_StepExplained == l <= Len(Ev) => ENABLED Step
Drift_SameShape == l > 1 => Len(Last.obs) = NN
Drift_NodeObservers == (l > 1 /\ Len(Last.obs) = NN) => \A n \in Ids : LET o == Last.obs[n] IN
    /\ o.stub = (IF IsStub(n) THEN 1 ELSE 0)
    /\ o.path = PathToRoot(n)
    /\ o.root = Root(n)
    /\ o.plen4 = PathLength(n)
    /\ o.left8 = Left2(n) /\ o.right8 = Right2(n)
    /\ o.ileft8 = 2 * nodes[n].ideal - nodes[n].w /\ o.iright8 = 2 * nodes[n].ideal + nodes[n].w
    /\ o.disp4 = Displacement(n)
    /\ o.layer = nodes[n].layer
    /\ o.cur4 = nodes[n].cur /\ o.ideal4 = nodes[n].ideal /\ o.w4 = nodes[n].w
Drift_PairHelpers == (l > 1 /\ Len(Last.obs) = NN /\ Last.pair.a > 0) => LET p == Last.pair IN
    /\ p.dist8 = Distance2(p.a, p.b)
    /\ p.ovl = (IF OverlapWithNode(p.a, p.b, p.buf4) THEN 1 ELSE 0)
    /\ p.ovlpt = (IF OverlapWithPoint(p.a, p.pos4) THEN 1 ELSE 0)
    /\ p.before8 = PositionBefore2(p.a, p.b, p.buf4)
    /\ p.after8 = PositionAfter2(p.a, p.b, p.buf4)
=============================================================================
