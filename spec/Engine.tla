------------------------------- MODULE Engine -------------------------------
(***************************************************************************)
(* One labella Force engine as a state machine over call histories (C06).  *)
(*                                                                         *)
(* The layout function itself is specified in Chain.tla / Vpsc.tla; here   *)
(* the state is what survives BETWEEN calls: which label set is loaded,    *)
(* the accumulated options (Force.set_options merges into a dict), and     *)
(* the stale state that earlier layouts leave on the label objects         *)
(* (stubs, positions, layer indices, overlap counts, list order).          *)
(* A Compute must yield  Fresh(base label set, accumulated options):       *)
(* each stale aspect is neutralised by one mechanism of the code; the set  *)
(* Mech says which mechanisms the design has (negative configs drop one).  *)
(*                                                                         *)
(*   SetNodes(s)   Force.nodes(list)         s in Sets, or a permutation   *)
(*   SetOptions(d) Force.set_options(delta)  merges d into the options     *)
(*   Compute       Force.compute()                                         *)
(*   Foreign(s)    another engine (other options) lays the labels of s out *)
(*   Remeasure(s)  the label OBJECTS of s get other widths / data positions *)
(*                 assigned (Timeline assigns node.width after creating the *)
(*                 nodes; a caller that rescales its axis assigns idealPos):*)
(*                 the labels of s are now its other version, and anything  *)
(*                 an earlier layout derived from the old values is stale   *)
(*                 (aspect "meas": the code reads width and idealPos afresh *)
(*                 in every compute)                                        *)
(***************************************************************************)
EXTENDS Integers, Sequences, FiniteSets, TLC

CONSTANTS Sets,        \* label-set names, e.g. {"A", "B"}
          Perms,       \* names of permuted presentations, e.g. {"PA"}; BaseOf maps them to Sets
          Deltas,      \* option-delta names, e.g. {"d1", ...}
          Mech,        \* mechanisms present: subset of Aspects
          MaxLen

Aspects == {"stubs", "pos", "order", "ovl", "meas"}
\* BaseOf / DeltaOf are fixed by the instance (the harness uses the same table, see EngineInst)
BaseOf(s) == IF s = "PA" THEN "A" ELSE IF s = "PB" THEN "B" ELSE s
\* option keys: mx (maxPos; 0 = None), mn (minPos; -1 = None), ns (nodeSpacing), alg, sw (stubWidth), dn (density in percent)
Opt0 == [mx |-> 0, mn |-> 0, ns |-> 3, alg |-> "overlap", sw |-> 1, dn |-> 85]
DeltaOf(d) == CASE d = "d1" -> [mx |-> 8]
                [] d = "d2" -> [mx |-> 0]
                [] d = "d3" -> [ns |-> 1]
                [] d = "d4" -> [alg |-> "simple"]
                [] d = "d5" -> [mx |-> 14, sw |-> 0]
                [] d = "d6" -> [mn |-> -1]
                [] d = "d7" -> [mn |-> 2, mx |-> 12]
                [] d = "d8" -> [dn |-> 50, mx |-> 10]
                [] d = "d9" -> [mx |-> 1, mn |-> 0]          \* both bounds at once, the upper one below an earlier lower bound (d7)
                [] OTHER -> [mx |-> 8]
Merge(o, dl) == [k \in DOMAIN o |-> IF k \in DOMAIN dl THEN dl[k] ELSE o[k]]

NoResult == [kind |-> "none"]
VARIABLES loaded, opts, dirty, ver, result, h
vars == <<loaded, opts, dirty, ver, result, h>>

Init == /\ loaded = "none" /\ opts = Opt0 /\ dirty = [s \in Sets |-> {}]
        /\ ver = [s \in Sets |-> 1]
        /\ result = NoResult /\ h = <<>>

Expected == [kind |-> "layout", base |-> BaseOf(loaded), ver |-> ver[BaseOf(loaded)], opts |-> opts]

SetNodes(s) == /\ loaded' = s /\ result' = NoResult
               /\ h' = Append(h, "N:" \o s) /\ UNCHANGED <<opts, dirty, ver>>
SetOptions(d) == /\ opts' = Merge(opts, DeltaOf(d))
                 /\ result' = NoResult       \* the last layout no longer belongs to the current options
                 /\ h' = Append(h, "O:" \o d) /\ UNCHANGED <<loaded, dirty, ver>>
Compute == /\ loaded # "none"
           /\ LET b == BaseOf(loaded)
                  leaked == (dirty[b] \cup (IF loaded \in Perms THEN {"order"} ELSE {})) \ Mech
              IN /\ result' = IF leaked = {} THEN Expected ELSE [kind |-> "corrupt", leaked |-> leaked]
                 /\ dirty' = [dirty EXCEPT ![b] = {"stubs", "pos", "ovl"}]
           /\ h' = Append(h, "C") /\ UNCHANGED <<loaded, opts, ver>>
Foreign(s) == /\ dirty' = [dirty EXCEPT ![s] = (@ \ {"meas"}) \cup {"stubs", "pos", "ovl"}]
              /\ h' = Append(h, "F:" \o s) /\ UNCHANGED <<loaded, opts, ver, result>>
\* another engine - even one built from the very same options dict - is re-configured: engines share nothing
Decoy(d) == /\ h' = Append(h, "X:" \o d) /\ UNCHANGED <<loaded, opts, dirty, ver, result>>
Remeasure(s) == /\ ver' = [ver EXCEPT ![s] = 3 - @]
                \* whatever was derived from the old measurements by an earlier layout of these objects is now stale
                /\ dirty' = [dirty EXCEPT ![s] = IF @ = {} THEN {} ELSE @ \cup {"meas"}]
                /\ result' = IF BaseOf(loaded) = s THEN NoResult ELSE result
                /\ h' = Append(h, "M:" \o s) /\ UNCHANGED <<loaded, opts>>

Next == /\ Len(h) < MaxLen
        /\ \/ \E s \in Sets \cup Perms : SetNodes(s)
           \/ \E d \in Deltas : SetOptions(d)
           \/ Compute
           \/ \E s \in Sets : Foreign(s)
           \/ \E s \in Sets : Remeasure(s)
Spec == Init /\ [][Next]_vars

\* the state without the history variable: under this VIEW the reachable graph is finite, so TLC decides Pure for call
\* histories of EVERY length (configuration MCEngine_unbounded)
View == <<loaded, opts, dirty, ver, result>>

\* C06: after every Compute the result is the fresh layout of the base labels under the accumulated options
Pure == result.kind # "none" => result = Expected
\* reuse for a second, different label set = fresh engine (instance of Pure; kept separately for readability)
ReuseEqualsFresh == (result.kind = "layout" /\ loaded \in Sets) => result.base = loaded
=============================================================================
