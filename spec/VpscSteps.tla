------------------------------ MODULE VpscSteps ------------------------------
(* Micro-step refinement for C05: the calls Blocks.split / Block.split,        *)
(* Solver.mostViolated, Blocks.merge, Block.splitBetween and Solver.satisfy    *)
(* of the REAL solver are wrapped at run time inside the harness process (no   *)
(* source hook) and logged as events; TLC checks that every event is an        *)
(* enabled action of the operational model Vpsc.tla leading to the logged      *)
(* active / unsatisfiable sets.  A mismatch is specification drift (reported   *)
(* in the evidence), not a verdict.                                            *)
(*   S c   a constraint split in the split pass        E   end of the pass     *)
(*   U c   marked unsatisfiable                        M c  merged             *)
(*   B c   split-between for violated c (+ re-merge)   N   nothing violated    *)
(*   X     satisfy() returns (loop test of solve())                            *)
(*   R d   setDesiredPositions(d) and entry of the next solve() (re-solve)     *)
(*   Z     setStartingPositions() that reset the structure and then raised     *)
EXTENDS Vpsc, Json, IOUtils
Trace == ndJsonDeserialize(IOEnv.TRACE_FILE)
VARIABLES tid, l
tvars == <<vars, tid, l>>
T == Trace[tid]
Ev == T.ev
TInit == /\ tid \in 1..Len(Trace) /\ l = 1
         /\ nv = Trace[tid].n
         /\ des = [v \in 1..Trace[tid].n |-> Trace[tid].des[v]]
         /\ wt = [v \in 1..Trace[tid].n |-> Trace[tid].wt[v]]
         /\ sc = [v \in 1..Trace[tid].n |-> Trace[tid].sc[v]]
         /\ cons = [c \in 1..Len(Trace[tid].cl) |-> [l |-> Trace[tid].cl[c], r |-> Trace[tid].cr[c], g |-> Trace[tid].cg[c]]]
         /\ Control0
SetOf(flags) == {c \in 1..Len(flags) : flags[c] = 1}
Step == /\ l <= Len(Ev)
        /\ LET e == Ev[l] IN
           /\ IF e.a = "X" THEN EndSat
              ELSE IF e.a = "R" THEN Retarget([v \in 1..nv |-> e.des[v]])
              ELSE IF e.a = "Z" THEN Restart
              ELSE LET d == Derive(active) IN
                   \/ (e.a = "S" /\ Split(e.c, d))
                   \/ (e.a = "E" /\ EndSplit(d))
                   \/ (e.a = "U" /\ MarkUnsat(e.c, d))
                   \/ (e.a = "M" /\ Merge(e.c, d))
                   \/ (e.a = "B" /\ SplitBetween(e.c, d))
                   \/ (e.a = "N" /\ NoMore(d))
           /\ active' = SetOf(e.act) /\ unsat' = SetOf(e.uns)
        /\ l' = l + 1 /\ UNCHANGED tid
Finished == l > Len(Ev) /\ UNCHANGED tvars
TNext == Step \/ Finished
TSpec == TInit /\ [][TNext]_tvars
\* every logged event is explained by the model, and the model stops exactly when the code stops
Drift_StepExplained == l <= Len(Ev) => ENABLED Step
Drift_StopsTogether == l > Len(Ev) => pc = "done"
=============================================================================
