SPECIFICATION TSpec
INVARIANT C14_NeverInward
INVARIANT C14_NeverInwardUpToFloatNoise
INVARIANT C14_KeepsOrientation
INVARIANT C14_LessThanTwoSteps
INVARIANT C14_OnTenthOfStepExceptDoubleWiden
INVARIANT C14_OnTenthOfStep
CHECK_DEADLOCK FALSE
