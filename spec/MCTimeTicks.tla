----------------------------- MODULE MCTimeTicks -----------------------------
(* Design-level check of the tick method (C16): for curated start instants x  *)
(* a span ladder x counts, every admissible tick method yields ticks that are *)
(* increasing, inside the domain, within the count bounds and with gap ratio  *)
(* <= 2.  The arithmetic-mean variant breaks the count bound (negative cfg).  *)
EXTENDS TimeTicks, SequencesExt
CONSTANTS StartDays, StartMs, SpanDays, SpanMsSet, Counts, NB
\* the instance space as a sequence, walked in NB blocks (TLC checks initial states on one thread only)
AllInst == SetToSeq({<<l, sp, c>> : l \in {<<d, ms>> : d \in StartDays, ms \in StartMs},
                                   sp \in {<<d, 0>> : d \in SpanDays} \cup {<<0, ms>> : ms \in SpanMsSet},
                                   c \in Counts})
VARIABLES i, stop
vars == <<i, stop>>
Blk == Len(AllInst) \div NB + 1
MinI(a, b) == IF a < b THEN a ELSE b
Init == \E k \in 0..(NB - 1) : i = 1 + k * Blk /\ stop = MinI((k + 1) * Blk, Len(AllInst)) /\ i <= Len(AllInst)
Next == i < stop /\ i' = i + 1 /\ UNCHANGED stop
Spec == Init /\ [][Next]_vars
lo == AllInst[i][1]
span == AllInst[i][2]
m == AllInst[i][3]
Hi == NormT(lo[1] + span[1], lo[2] + span[2])
Meths == TickMethods(lo, Hi, m)
MethodExists == Meths # {}
Short == span[1] = 0 /\ span[2] < m
TicksOK == \A me \in Meths : LET tk == Ticks(lo, Hi, me) IN
              /\ IncreasingOK(tk) /\ InDomainOK(tk, lo, Hi)
              /\ GapRatioOK(tk)
CountBound == \A me \in Meths : LET tk == Ticks(lo, Hi, me) IN
              IF Short THEN Len(tk) \in {span[2], span[2] + 1} ELSE CountOK(tk, m)
\* nice(): never inward, each end less than two tick steps (of the ticks of the original domain) outward, on a boundary of the unit
MaxGapOf(tk) == CHOOSE g \in GapsOf(tk) : \A x \in GapsOf(tk) : DLe(x, g)
NiceOK == \A me \in Meths : LET nl == NiceFloor(me, lo) nh == NiceCeil(me, Hi) tk == Ticks(lo, Hi, me) IN
            /\ TLe(nl, lo) /\ TLe(Hi, nh)
            /\ Len(tk) >= 2 => /\ DLt(Diff(lo, nl), Twice(MaxGapOf(tk)))
                                /\ DLt(Diff(nh, Hi), Twice(MaxGapOf(tk)))
            /\ me[1] # "ms" => IsBoundary(me[1], nl) /\ IsBoundary(me[1], nh)
=============================================================================
