SPECIFICATION TSpec
CONSTANTS
  StopRule = "no-change"
  OneMerge = TRUE
  Det = FALSE
INVARIANT Drift_StepExplained
INVARIANT Drift_StopsTogether
CHECK_DEADLOCK FALSE
