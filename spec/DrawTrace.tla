------------------------------ MODULE DrawTrace ------------------------------
(***************************************************************************)
(* Binding for C07, C08, C09.  One record = the same data and options      *)
(* exported by TimelineSVG and by TimelineTex, each document parsed into   *)
(* an abstract drawing (driver d_timeline.py):                             *)
(*   axis, ticks (position, text), dots, links (path operators and points),*)
(*   boxes (origin, size, text, colours), the caller's original data in    *)
(*   the order of the drawn items, and the layout read from tl.nodes.      *)
(* Coordinates are integers x 1e5 (U5); "along" is the coordinate along    *)
(* the axis, "across" the one perpendicular to it.                         *)
(***************************************************************************)
EXTENDS Calendar, BigNat, Json, IOUtils

Trace == ndJsonDeserialize(IOEnv.TRACE_FILE)
VARIABLE r
TInit == r \in 1..Len(Trace)
TNext == UNCHANGED r
TSpec == TInit /\ [][TNext]_r
T == Trace[r]
U5 == 100000
Backends == {T.svg, T.tikz}
Abs(x) == IF x < 0 THEN -x ELSE x
SB(n) == SBig(n)

\* ---------------------------------------------------------------- geometry helpers
Sign(B) == IF B.dir \in {"down", "right"} THEN 1 ELSE -1
\* a point <<x, y>> of the document as <<along, across>>
Along(B, p) == IF B.horiz = 1 THEN p[1] ELSE p[2]
Across(B, p) == IF B.horiz = 1 THEN p[2] ELSE p[1]
BoxAlong0(B, b) == IF B.horiz = 1 THEN b.x5 ELSE b.y5
BoxAlongLen(B, b) == IF B.horiz = 1 THEN b.w5 ELSE b.h5
BoxAcross0(B, b) == IF B.horiz = 1 THEN b.y5 ELSE b.x5
BoxAcrossLen(B, b) == IF B.horiz = 1 THEN b.h5 ELSE b.w5
Pitch(B) == B.gap5 + B.nodeH5                     \* layer gap + layer thickness

\* ---------------------------------------------------------------- C07
OnePerDatum(B) == Len(B.dots) = B.n /\ Len(B.links) = B.n /\ Len(B.boxes) = B.n /\ Len(B.nodes) = B.n /\ Len(B.data) = B.n
C07_OnePerDatum == \A B \in Backends : OnePerDatum(B)

\* the affine map of the axis: p = L * (t - d0) / (d1 - d0), in exact arithmetic
\* an instant <<day, ms of day, us of ms>> in microseconds (datetime values carry microseconds: "exactly as supplied")
Ms(t) == SAdd(SMul(SAdd(SMul(SB(t[1]), SB(DAYMS)), SB(t[2])), SB(1000)), SB(IF Len(t) >= 3 THEN t[3] ELSE 0))
D0(B) == IF B.scale = "linear" THEN SB(B.dom3[1]) ELSE Ms(B.domt[1])
D1(B) == IF B.scale = "linear" THEN SB(B.dom3[2]) ELSE Ms(B.domt[2])
\* |pos5 * (d1 - d0) - L5 * (t - d0)| <= tol * |d1 - d0|
\* (time scale: the code converts instants to float milliseconds, whose resolution at 10^12 is a quarter of a microsecond: one
\*  microsecond of elapsed time is allowed on top of the printing tolerance)
OnLine(B, pos5, t, tol) == LET dd == SSub(D1(B), D0(B)) IN
    SLe(SAbs(SSub(SMul(SB(pos5), dd), SMul(SB(B.L5), SSub(t, D0(B))))),
        SAdd(SMul(SB(tol), SAbs(dd)), IF B.scale = "linear" THEN SB(0) ELSE SB(B.L5)))
TimeOf(B, i) == IF B.scale = "linear" THEN SB(B.data[i].t3) ELSE Ms(B.data[i].t)
TickTime(B, k) == IF B.scale = "linear" THEN SB(B.tickvals[k].v3) ELSE Ms(B.tickvals[k].t)
Increasing(B) == SCmp(D0(B), D1(B)) < 0
\* dots: the datum's own time, exactly as supplied (tolerance: printing to 1e-6 and float rounding)
\* (a degenerate axis domain - single datum, equal times - has no increasing affine map; C11 says where its dots go)
NonDegenerate(B) == SCmp(D0(B), D1(B)) # 0
C07_DotsAtTrueTime == \A B \in Backends : (OnePerDatum(B) /\ NonDegenerate(B)) =>
    /\ Increasing(B)
    /\ \A i \in 1..B.n : OnLine(B, B.dots[i].pos5, TimeOf(B, i), 3)
C07_OnAxis == \A B \in Backends : /\ B.axis5 = B.L5 /\ B.axis_other5 = 0
                                   /\ \A i \in 1..Len(B.dots) : B.dots[i].other5 = 0
\* "so every dot lies on the axis line": the axis line is the segment from 0 to the axis length; the domain (derived from the
\* data, or given explicitly and covering the data) is mapped onto it, so no dot may fall beyond either end
C07_DotsOnAxisSegment == \A B \in Backends : \A i \in 1..Len(B.dots) : B.dots[i].pos5 >= -3 /\ B.dots[i].pos5 <= B.L5 + 3
\* (ticks are values of the domain by C16, which allows a millisecond of slack for sub-second spacings: not restated here)
\* ticks: one per tick of the scale, on the same affine map (TikZ truncates tick origins to integers)
TickTol(B) == IF B.backend = "tikz" THEN U5 + 3 ELSE 3
C07_TicksOnLine == \A B \in Backends : NonDegenerate(B) =>
    /\ Len(B.ticks) = Len(B.tickvals)
    /\ \A k \in 1..Len(B.ticks) : OnLine(B, B.ticks[k].pos5, TickTime(B, k), TickTol(B)) /\ B.ticks[k].other5 = 0

\* links
Ops(layer) == LET RECURSIVE Rep(_) Rep(k) == IF k = 0 THEN "" ELSE "LC" \o Rep(k - 1) IN "MC" \o Rep(layer)
\* end point of the k-th segment (k = 1 is the M)
SegEnd(l, k) == LET p == l.pts5[k] IN <<p[Len(p) - 1], p[Len(p)]>>
LinkShape(B, i) ==
    LET l == B.links[i]
        nd == B.nodes[i]
        box == B.boxes[i]
        lay == nd.layer
        last == SegEnd(l, Len(l.pts5))
    IN /\ l.ops = Ops(lay) /\ l.cont = 1
       /\ Len(nd.chain5) = lay + 1
       \* starts at its datum's dot
       /\ Abs(Along(B, SegEnd(l, 1)) - nd.ideal5) <= 1 /\ Across(B, SegEnd(l, 1)) = 0     \* (independent roundings to 1e-5)
       /\ Abs(Along(B, SegEnd(l, 1)) - B.dots[i].pos5) <= 1
       \* level k = 0..lay: the curve ends at the along-position of the k-th hop of the root path, at the
       \* axis-facing edge of layer k; the line (if any) crosses the layer
       /\ \A k \in 0..lay :
            /\ Along(B, SegEnd(l, 2 + 2 * k)) = nd.chain5[k + 1]
            /\ Across(B, SegEnd(l, 2 + 2 * k)) = Sign(B) * (k * Pitch(B) + B.gap5)
            /\ k < lay => /\ Along(B, SegEnd(l, 3 + 2 * k)) = nd.chain5[k + 1]
                          /\ Across(B, SegEnd(l, 3 + 2 * k)) = Sign(B) * ((k + 1) * Pitch(B))
       \* ends at the middle of the axis-facing edge of its own box (1 unit of integer truncation)
       /\ Abs(2 * Along(B, last) - (2 * BoxAlong0(B, box) + BoxAlongLen(B, box))) < 2 * U5
       /\ LET edge == IF Sign(B) = 1 THEN BoxAcross0(B, box) ELSE BoxAcross0(B, box) + BoxAcrossLen(B, box)
          IN Abs(Across(B, last) - edge) < U5
C07_LinkShape == \A B \in Backends : OnePerDatum(B) => \A i \in 1..B.n : LinkShape(B, i)

\* boxes: the datum's size plus padding; the datum's text verbatim
PadW(B) == (B.pad.left + B.pad.right) * U5
PadH(B) == (B.pad.top + B.pad.bottom) * U5
\* (which pair of paddings goes with which side, and the orientation of the box for a vertical axis,
\*  are not fixed by the statement: every assignment is accepted, the total must be exact)
BoxSize(B, i) == LET b == B.boxes[i] d == B.data[i] IN
    \/ (b.w5 = d.w5 + PadW(B) /\ b.h5 = d.h5 + PadH(B))
    \/ (B.horiz = 0 /\ b.w5 = d.w5 + PadH(B) /\ b.h5 = d.h5 + PadW(B))
    \/ (B.horiz = 0 /\ b.h5 = d.w5 + PadW(B) /\ b.w5 = d.h5 + PadH(B))
    \/ (B.horiz = 0 /\ b.h5 = d.w5 + PadH(B) /\ b.w5 = d.h5 + PadW(B))
C07_BoxSize == \A B \in Backends : OnePerDatum(B) => \A i \in 1..B.n : BoxSize(B, i)
C07_TextVerbatim == OnePerDatum(T.svg) => \A i \in 1..T.svg.n :
    /\ T.svg.boxes[i].text = T.svg.data[i].text
    /\ (T.svg.data[i].ascii = 1 /\ OnePerDatum(T.tikz)) => T.tikz.boxes[i].text = T.tikz.data[i].text

\* tick texts: the formatted value of the tick's position
Pad2(n) == IF n < 10 THEN "0" \o ToString(n) ELSE ToString(n)
MonthName(m) == <<"January", "February", "March", "April", "May", "June", "July", "August", "September", "October", "November", "December">>[m]
DayAbbr(w) == <<"Sun", "Mon", "Tue", "Wed", "Thu", "Fri", "Sat">>[w + 1]
TimeFormat(t) ==          \* labella.scale.mytimeformat on an instant <<day, ms>>
    LET c == CivilFromDays(t[1])
        hh == t[2] \div 3600000
        mi == (t[2] \div 60000) % 60
        ss == (t[2] \div 1000) % 60
        h12 == IF hh % 12 = 0 THEN 12 ELSE hh % 12
    IN IF c[3] = 1 /\ c[2] = 1 THEN ToString(c[1])
       ELSE IF c[3] = 1 THEN MonthName(c[2])
       ELSE IF Weekday(t[1]) = 0 /\ hh = 0 /\ mi = 0 /\ ss = 0 THEN SubSeq(MonthName(c[2]), 1, 3) \o " " \o Pad2(c[3])
       ELSE IF hh = 0 /\ mi = 0 /\ ss = 0 THEN DayAbbr(Weekday(t[1])) \o " " \o Pad2(c[3])
       ELSE IF mi = 0 /\ ss = 0 THEN Pad2(h12) \o " " \o (IF hh < 12 THEN "AM" ELSE "PM")
       ELSE IF ss = 0 THEN Pad2(hh) \o ":" \o Pad2(mi)
       ELSE ":" \o Pad2(ss)
\* "each tick carries the formatted value of its position": linear - the text reads back as the tick value (C13's reading);
\* time - the text is what the scale's own formatter gives for that tick (WHICH format the time scale uses is stated by no
\* listed property: the model of it, TimeFormat above, is compared as specification drift only)
C07_TickText == \A B \in Backends : Len(B.ticks) = Len(B.tickvals) => \A k \in 1..Len(B.ticks) :
    IF B.scale = "linear" THEN Abs(B.ticks[k].textv3 - B.tickvals[k].v3) <= B.tickvals[k].tol3
    ELSE B.ticks[k].text = B.tickvals[k].fmt
\* ... and, whatever the format, the text must DENOTE the tick's instant: every number in it is one of the instant's calendar or
\* clock fields (a 12-hour value only next to an AM/PM mark), every word a month or weekday name (or abbreviation) or the right
\* AM/PM mark - "01:05" on a tick at 13:05 is not the formatted value of that position
LowerMonth(m) == <<"january", "february", "march", "april", "may", "june", "july", "august", "september", "october", "november", "december">>[m]
LowerDay(w) == <<"sunday", "monday", "tuesday", "wednesday", "thursday", "friday", "saturday">>[w + 1]
Prefix3(str) == SubSeq(str, 1, 3)
TextDenotes(tk, t) ==
    LET c == CivilFromDays(t[1])
        hh == t[2] \div 3600000
        mi == (t[2] \div 60000) % 60
        ss == (t[2] \div 1000) % 60
        ms == t[2] % 1000
        us == IF Len(t) >= 3 THEN t[3] ELSE 0
        h12 == IF hh % 12 = 0 THEN 12 ELSE hh % 12
        wd == Weekday(t[1])
        marks == {tk.words[i] : i \in 1..Len(tk.words)} \cap {"am", "pm"}
        fields == {c[1], c[1] % 100, c[2], c[3], hh, mi, ss, ms, ms * 1000 + us} \cup (IF marks # {} THEN {h12} ELSE {})
    IN /\ Len(tk.nums) + Len(tk.words) >= 1
       /\ \A i \in 1..Len(tk.nums) : tk.nums[i] \in fields
       /\ \A i \in 1..Len(tk.words) : LET w == tk.words[i] IN
              \/ w = LowerMonth(c[2]) \/ w = Prefix3(LowerMonth(c[2]))
              \/ w = LowerDay(wd) \/ w = Prefix3(LowerDay(wd))
              \/ (w = "am" /\ hh < 12) \/ (w = "pm" /\ hh >= 12)
C07_TickTextDenotesPosition == \A B \in Backends : (B.scale # "linear" /\ Len(B.ticks) = Len(B.tickvals)) =>
    \A k \in 1..Len(B.ticks) : TextDenotes(B.ticks[k], B.tickvals[k].t)
Drift_TimeFormatModel == \A B \in Backends : B.scale # "linear" => \A k \in 1..Len(B.tickvals) : B.tickvals[k].fmt = TimeFormat(B.tickvals[k].t)

\* ---------------------------------------------------------------- C08 (label spacing >= 3, layer gap >= 1)
C08Applies(B) == B.ns >= 3 /\ B.gap5 >= U5 /\ OnePerDatum(B)
Disjoint2(a, b) == a.x5 + a.w5 < b.x5 \/ b.x5 + b.w5 < a.x5 \/ a.y5 + a.h5 < b.y5 \/ b.y5 + b.h5 < a.y5
C08_Disjoint == \A B \in Backends : C08Applies(B) => \A i, j \in 1..B.n : i < j => Disjoint2(B.boxes[i], B.boxes[j])
\* wholly on the side named by the direction, at least the layer gap (less 1 unit of truncation) away
C08_Side == \A B \in Backends : C08Applies(B) => \A i \in 1..B.n : LET b == B.boxes[i] IN
    IF Sign(B) = 1 THEN BoxAcross0(B, b) >= B.gap5 - U5
    ELSE BoxAcross0(B, b) + BoxAcrossLen(B, b) <= -(B.gap5 - U5)
\* boxes of a farther layer lie wholly beyond the boxes of nearer layers
C08_LayerOrder == \A B \in Backends : C08Applies(B) => \A i, j \in 1..B.n :
    B.nodes[i].layer < B.nodes[j].layer =>
        IF Sign(B) = 1 THEN BoxAcross0(B, B.boxes[j]) >= BoxAcross0(B, B.boxes[i]) + BoxAcrossLen(B, B.boxes[i])
        ELSE BoxAcross0(B, B.boxes[j]) + BoxAcrossLen(B, B.boxes[j]) <= BoxAcross0(B, B.boxes[i])

\* ---------------------------------------------------------------- C09: the two back-ends draw the same picture
S == T.svg
X == T.tikz
C09_SameCounts == Len(S.dots) = Len(X.dots) /\ Len(S.links) = Len(X.links) /\ Len(S.boxes) = Len(X.boxes) /\ Len(S.ticks) = Len(X.ticks)
Counts == Len(S.dots) = Len(X.dots) /\ Len(S.links) = Len(X.links) /\ Len(S.boxes) = Len(X.boxes) /\ Len(S.ticks) = Len(X.ticks)
C09_SameAxis == S.axis5 = X.axis5 /\ S.axis_other5 = X.axis_other5
C09_SameBoxes == Counts => \A i \in 1..Len(S.boxes) :
    /\ S.boxes[i].x5 = X.boxes[i].x5 /\ S.boxes[i].y5 = X.boxes[i].y5           \* both print %i
    /\ S.boxes[i].ws = X.boxes[i].ws /\ S.boxes[i].hs = X.boxes[i].hs           \* both print str()
C09_SameLinks == Counts => \A i \in 1..Len(S.links) :
    S.links[i].ops = X.links[i].ops /\ S.links[i].pts = X.links[i].pts /\ X.links[i].cont = 1    \* point for point, as printed (%.8f)
C09_SameDots == Counts => \A i \in 1..Len(S.dots) :
    /\ Abs(S.dots[i].pos5 - X.dots[i].pos5) <= 1 /\ S.dots[i].other5 = X.dots[i].other5 /\ S.dots[i].size5 = X.dots[i].size5
C09_SameTicks == Counts => \A k \in 1..Len(S.ticks) :
    /\ S.ticks[k].text = X.ticks[k].text
    \* TikZ truncates to an integer (toward zero: a tick a hair before the start of the axis is drawn at 0)
    /\ Abs(S.ticks[k].pos5 - X.ticks[k].pos5) <= U5
    /\ (S.ticks[k].pos5 >= 0 => S.ticks[k].pos5 - X.ticks[k].pos5 >= 0) /\ (S.ticks[k].pos5 <= 0 => S.ticks[k].pos5 - X.ticks[k].pos5 <= 0)
    /\ X.ticks[k].pos5 % U5 = 0
C09_SameColours == Counts =>
    /\ \A i \in 1..Len(S.dots) : S.dots[i].rgb = X.dots[i].rgb
    /\ \A i \in 1..Len(S.links) : S.links[i].rgb = X.links[i].rgb
    /\ \A i \in 1..Len(S.boxes) : /\ S.boxes[i].bg = X.boxes[i].bg
                                  /\ S.boxes[i].border = X.boxes[i].border
                                  /\ (S.data[i].hastext = 1 => S.boxes[i].textrgb = X.boxes[i].textrgb)
C09_SameTexts == Counts => \A i \in 1..Len(S.boxes) : S.data[i].ascii = 1 => S.boxes[i].text = X.boxes[i].text
=============================================================================
