------------------------------ MODULE Calendar ------------------------------
(***************************************************************************)
(* Proleptic Gregorian calendar on instants <<day, ms>>:                   *)
(*   day = days since 1970-01-01 (may be negative), ms = 0..86399999.      *)
(* No epoch-millisecond value (~1e13) is ever a TLC integer; durations are *)
(* <<days, ms>> pairs compared lexicographically.                          *)
(*                                                                         *)
(* The seven units of labella/d3_time.py: second, minute, hour, day,       *)
(* week (starting Sunday), month, year - with the functional               *)
(* Floor / Ceil / Round / Offset / Range and the declarative predicates    *)
(* IsBoundary, IsFloor, IsCeil, IsRound, IsKthFollowing, IsRange (C17).    *)
(***************************************************************************)
EXTENDS Integers, Sequences, FiniteSets, TLC

DAYMS == 86400000
Units == {"second", "minute", "hour", "day", "week", "month", "year"}

\* ---------------------------------------------------------------- civil <-> day number
DaysFromCivil(y, m, d) ==
    LET yy  == IF m <= 2 THEN y - 1 ELSE y
        era == yy \div 400                       \* TLC's \div floors
        yoe == yy - era * 400
        mp  == (m + 9) % 12                      \* March = 0
        doy == (153 * mp + 2) \div 5 + d - 1
        doe == yoe * 365 + yoe \div 4 - yoe \div 100 + doy
    IN era * 146097 + doe - 719468
CivilFromDays(z) ==
    LET zz  == z + 719468
        era == zz \div 146097
        doe == zz - era * 146097
        yoe == (doe - doe \div 1460 + doe \div 36524 - doe \div 146096) \div 365
        y   == yoe + era * 400
        doy == doe - (365 * yoe + yoe \div 4 - yoe \div 100)
        mp  == (5 * doy + 2) \div 153
        d   == doy - (153 * mp + 2) \div 5 + 1
        m   == IF mp < 10 THEN mp + 3 ELSE mp - 9
    IN <<IF m <= 2 THEN y + 1 ELSE y, m, d>>
IsLeap(y) == (y % 4 = 0 /\ y % 100 # 0) \/ y % 400 = 0
DaysInMonth(y, m) == IF m = 2 THEN (IF IsLeap(y) THEN 29 ELSE 28)
                     ELSE IF m \in {4, 6, 9, 11} THEN 30 ELSE 31
Weekday(day) == (day + 4) % 7                    \* Sunday = 0; 1970-01-01 was a Thursday
YearOf(day) == CivilFromDays(day)[1]
MonthOf(day) == CivilFromDays(day)[2]
DomOf(day) == CivilFromDays(day)[3]
DayOfYear(day) == day - DaysFromCivil(YearOf(day), 1, 1)      \* 0-based

\* ---------------------------------------------------------------- instants and durations
TLt(a, b) == a[1] < b[1] \/ (a[1] = b[1] /\ a[2] < b[2])
TLe(a, b) == a = b \/ TLt(a, b)
NormT(d, ms) == <<d + (ms \div DAYMS), ms % DAYMS>>              \* ms may be any integer in 32 bits
AddMs(t, ms) == NormT(t[1], t[2] + ms)                         \* |ms| < 2^31 - DAYMS
Diff(a, b) == NormT(a[1] - b[1], a[2] - b[2])                  \* a - b as <<days, ms>>, ms in 0..DAYMS-1
DLt(x, y) == x[1] < y[1] \/ (x[1] = y[1] /\ x[2] < y[2])

\* ---------------------------------------------------------------- the units
UnitMs(u) == CASE u = "second" -> 1000 [] u = "minute" -> 60000 [] u = "hour" -> 3600000 [] OTHER -> DAYMS
Floor(u, t) ==
    CASE u \in {"second", "minute", "hour"} -> <<t[1], t[2] - (t[2] % UnitMs(u))>>
      [] u = "day"   -> <<t[1], 0>>
      [] u = "week"  -> <<t[1] - Weekday(t[1]), 0>>
      [] u = "month" -> LET c == CivilFromDays(t[1]) IN <<DaysFromCivil(c[1], c[2], 1), 0>>
      [] OTHER       -> <<DaysFromCivil(YearOf(t[1]), 1, 1), 0>>
IsBoundary(u, t) == Floor(u, t) = t
\* stepping a boundary forward by k units (k >= 0)
AddMonths(day, k) == LET c == CivilFromDays(day)
                         mm == (c[2] - 1) + k
                     IN DaysFromCivil(c[1] + (mm \div 12), (mm % 12) + 1, c[3])
Offset(u, t, k) ==
    CASE u = "second" -> NormT(t[1] + k \div 86400, t[2] + (k % 86400) * 1000)
      [] u = "minute" -> NormT(t[1] + k \div 1440, t[2] + (k % 1440) * 60000)
      [] u = "hour"   -> NormT(t[1] + k \div 24, t[2] + (k % 24) * 3600000)
      [] u = "day"    -> <<t[1] + k, t[2]>>
      [] u = "week"   -> <<t[1] + 7 * k, t[2]>>
      [] u = "month"  -> <<AddMonths(t[1], k), t[2]>>
      [] OTHER        -> <<AddMonths(t[1], 12 * k), t[2]>>
Succ(u, b) == Offset(u, b, 1)
Ceil(u, t) == IF IsBoundary(u, t) THEN t ELSE Succ(u, Floor(u, t))
Round(u, t) == LET f == Floor(u, t) n == Succ(u, f)
               IN IF DLt(Diff(t, f), Diff(n, t)) THEN f ELSE n
\* the unit number used by range(..., step) to filter boundaries
Number(u, t) ==
    CASE u = "second" -> (t[2] \div 1000) % 60
      [] u = "minute" -> (t[2] \div 60000) % 60
      [] u = "hour"   -> t[2] \div 3600000
      [] u = "day"    -> DomOf(t[1]) - 1
      [] u = "month"  -> MonthOf(t[1]) - 1
      [] u = "year"   -> YearOf(t[1])
      [] OTHER        -> 0                       \* week: only step 1 is used and specified
RECURSIVE RangeRec(_, _, _, _, _)
RangeRec(u, cur, t1, step, acc) ==
    IF ~TLt(cur, t1) THEN acc
    ELSE RangeRec(u, Succ(u, cur), t1, step,
                  IF step <= 1 \/ Number(u, cur) % step = 0 THEN Append(acc, cur) ELSE acc)
Range(u, t0, t1, step) == RangeRec(u, Ceil(u, t0), t1, step, <<>>)

\* ---------------------------------------------------------------- declarative predicates (C17)
\* floor: the latest boundary not after t
IsFloor(u, t, r) == IsBoundary(u, r) /\ TLe(r, t) /\ TLt(t, Succ(u, r))
\* ceil: the earliest boundary not before t  (the boundary before r lies strictly before t)
IsCeil(u, t, r) == IsBoundary(u, r) /\ TLe(t, r) /\ TLt(Floor(u, AddMs(r, -1)), t)
\* round: the nearer of the two boundaries around t, the later one on a tie
IsRound(u, t, r) == \E f \in {Floor(u, t)} : LET n == Succ(u, f) IN
                      /\ IsFloor(u, t, f)
                      /\ r = IF DLt(Diff(t, f), Diff(n, t)) THEN f ELSE n
\* the k-th boundary following b: every one of the k steps lands on the next boundary
RECURSIVE IterSucc(_, _, _)
IterSucc(u, b, k) == IF k = 0 THEN b ELSE IterSucc(u, Succ(u, b), k - 1)
IsKthFollowing(u, b, k, r) == r = Offset(u, b, k)
\* range: exactly the boundaries in [t0, t1), increasing, unit number divisible by step
IsRange(u, t0, t1, step, rs) ==
    /\ \A i \in 1..Len(rs) : IsBoundary(u, rs[i]) /\ TLe(t0, rs[i]) /\ TLt(rs[i], t1)
                             /\ (step <= 1 \/ Number(u, rs[i]) % step = 0)
    /\ \A i \in 1..(Len(rs) - 1) : TLt(rs[i], rs[i + 1])
    /\ rs = Range(u, t0, t1, step)               \* none missing
=============================================================================
