------------------------------ MODULE Timelines ------------------------------
(***************************************************************************)
(* A process with module-level defaults and any number of Timeline         *)
(* instances (C10).  What matters between instances is which SCALE OBJECT  *)
(* an instance writes its axis domain/range into at construction and reads *)
(* at export: its own (caller-supplied), or the module-level default       *)
(* TimeScale (ShareDefaultScale = TRUE: the pinned tree; every instance    *)
(* that brings no scale re-domains the one default object), or a private   *)
(* copy of the default (FALSE).                                            *)
(*   Construct(id, c)  MergeOptions ; ParseItems ; InitAxis (writes axis)  *)
(*   Export(id)        Nodes ; Layout ; Render ; Emit (reads axis)         *)
(* A configuration c is abstract: OwnScale(c) says whether the caller      *)
(* supplies the scale; Axis(c) is the axis the data of c implies.          *)
(* The axis is FITTED (domain derived from the data, made nice, range set) *)
(* exactly once, at construction; Export only reads it.  FitAxisAtExport = *)
(* TRUE is the realistic wrong variant in which every export fits again:   *)
(* nice() of an already nice domain is a different domain for some data    *)
(* (NiceSensitive configurations: the widened extent picks a coarser tick  *)
(* interval), so a second export then draws another document.              *)
(***************************************************************************)
EXTENDS Integers, Sequences, FiniteSets, TLC
CONSTANTS Ids, Cfgs, OwnScaleCfgs, NiceSensitive, NoOptCfgs, ShareDefaultScale, ShareWhenOmitted, ReadsSharedDirection, FitAxisAtExport, MaxLen

VARIABLES tl,        \* id -> [cfg, scale] ; scale is "default" or <<"own", id, n>>
          axis,      \* scale object -> the axis last written into it
          out,       \* id -> last exported document (abstract) or "none"
          sharedDir, \* the "direction" entry of the module-level default engine-option dict: every instance that brings no
                     \* engine options WRITES its direction there (the code does); ReadsSharedDirection says whether export
                     \* reads it back (FALSE: the code reads its own option; TRUE: a realistic wrong variant)
          nobj, h
vars == <<tl, axis, out, sharedDir, nobj, h>>
None == [kind |-> "none"]
DefaultObj == <<"default", 0>>
Doc(c, ax, dir) == [kind |-> "doc", cfg |-> c, axis |-> ax, dir |-> dir]
Fitted(c, n) == [c |-> c, n |-> n]               \* the axis of configuration c after n applications of nice()
Solo(c) == Doc(c, Fitted(c, 1), c)               \* exported alone in a fresh process: its own axis fitted once, its own direction
Refit(a) == IF a.c = "unset" THEN a ELSE IF a.c \in NiceSensitive THEN Fitted(a.c, IF a.n < 3 THEN a.n + 1 ELSE 3) ELSE Fitted(a.c, 1)
Init == tl = [i \in Ids |-> None] /\ axis = [s \in {DefaultObj} |-> Fitted("unset", 0)] /\ out = [i \in Ids |-> None] /\ sharedDir = "unset" /\ nobj = 0 /\ h = <<>>

Construct(i, c) ==
    \* the scale object this instance writes into: a fresh one (its own, or a private copy of the default).  A fresh object is
    \* named after the instance that holds it: the object a re-constructed instance held before is garbage (nobody else can
    \* hold it), so the state space stays finite and TLC decides the properties for histories of every length
    \* (ShareWhenOmitted: the realistic wrong variant in which only instances constructed WITHOUT an options argument - the
    \*  configurations NoOptCfgs - end up with one shared object, e.g. through a mutable default argument)
    LET shared == c \notin OwnScaleCfgs /\ (ShareDefaultScale \/ (ShareWhenOmitted /\ c \in NoOptCfgs))
        s == IF shared THEN DefaultObj ELSE <<"obj", i>>
    IN /\ tl' = [tl EXCEPT ![i] = [kind |-> "tl", cfg |-> c, scale |-> s]]
       /\ axis' = [x \in DOMAIN axis \cup {s} |-> IF x = s THEN Fitted(c, IF FitAxisAtExport THEN 0 ELSE 1) ELSE axis[x]]      \* InitAxis writes through the reference
       /\ out' = [out EXCEPT ![i] = None]
       /\ sharedDir' = c                         \* options["labella"]["direction"] = direction, into the shared default dict
       /\ nobj' = nobj                           \* (kept for the trace specification's variable list; no longer counts)
       /\ h' = Append(h, [a |-> "K", i |-> i, c |-> c])
Export(i) ==
    /\ tl[i].kind = "tl"
    /\ LET ax == IF FitAxisAtExport THEN Refit(axis[tl[i].scale]) ELSE axis[tl[i].scale]
       IN /\ out' = [out EXCEPT ![i] = Doc(tl[i].cfg, ax, IF ReadsSharedDirection THEN sharedDir ELSE tl[i].cfg)]
          /\ axis' = [axis EXCEPT ![tl[i].scale] = ax]          \* (unchanged unless the wrong variant fits again)
    /\ h' = Append(h, [a |-> "E", i |-> i, c |-> tl[i].cfg])
    /\ UNCHANGED <<tl, sharedDir, nobj>>
Next == Len(h) < MaxLen /\ \E i \in Ids : (\E c \in Cfgs : Construct(i, c)) \/ Export(i)
Spec == Init /\ [][Next]_vars

View == <<tl, axis, out, sharedDir>>       \* without the history: a finite graph (configuration MCTimelines_unbounded)

\* C10: every exported document is the one the same data and options give alone in a fresh process
Isolation == \A i \in Ids : out[i].kind = "doc" => out[i] = Solo(tl[i].cfg)
\* exporting the same timeline again yields the identical document
Idempotent == [][\A i \in Ids : (out[i].kind = "doc" /\ out'[i].kind = "doc" /\ tl'[i] = tl[i]) => out'[i] = out[i]]_vars
=============================================================================
