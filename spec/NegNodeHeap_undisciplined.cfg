SPECIFICATION Spec
CONSTANTS
  MaxNodes = 4
  MaxLen = 4
  Ideals = {0}
  Widths = {4}
  StubWidths = {4}
  Positions = {2}
  Disciplined = FALSE
INVARIANT Undisciplined_PointersAgree
CHECK_DEADLOCK FALSE
