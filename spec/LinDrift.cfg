SPECIFICATION TSpec
INVARIANT Drift_LinModelExplainsTicks
CHECK_DEADLOCK FALSE
