INIT InitSim
NEXT NextSim
CONSTANTS
  N = 5
  Des = {0,1,2,3}
  Gaps = {0,1,2,3}
  Weights = {1,3}
  Scales = {1}
  AllowCycles = FALSE
  StopRule = "no-change"
  OneMerge = TRUE
  Det = FALSE
INVARIANT Feasible
INVARIANT Certified
INVARIANT NoFlagInDag
INVARIANT Forest
INVARIANT SimBound
CHECK_DEADLOCK FALSE
