---------------------------- MODULE EngineTrace ----------------------------
(* Binding for C06.  One ndjson record = one call history played on a real   *)
(* labella Force (driver d_engine.py): the actions, and for every Compute    *)
(* the observed (idealPos, width) -> (layer, position) map `res`, the same   *)
(* map `ref` from a FRESH engine with fresh labels, and the configuration    *)
(* `cfg` the reference was built for.  TLC steps the model Engine.tla along  *)
(* the actions; every Compute must be explained by the model (cfg = the      *)
(* model's Expected) and must be Pure (res = ref).                           *)
EXTENDS Engine, Json, IOUtils

Trace == ndJsonDeserialize(IOEnv.TRACE_FILE)
VARIABLES tid, l
tvars == <<vars, tid, l>>
Ev == Trace[tid].ev
TInit == tid \in 1..Len(Trace) /\ l = 1 /\ Init

Step == /\ l <= Len(Ev)
        /\ LET a == Ev[l].a x == Ev[l].x IN
             \/ (a = "N" /\ SetNodes(x))
             \/ (a = "O" /\ SetOptions(x))
             \/ (a = "C" /\ Compute)
             \/ (a = "F" /\ Foreign(x))
             \/ (a = "M" /\ Remeasure(x))
             \/ (a = "X" /\ Decoy(x))
        /\ l' = l + 1 /\ UNCHANGED tid
Finished == l > Len(Ev) /\ UNCHANGED tvars
TNext == Step \/ Finished
TSpec == TInit /\ [][TNext]_tvars

Last == Ev[l - 1]
AtCompute == l > 1 /\ Last.a = "C"
\* the reference configuration logged by the harness is the one the model expects
CfgMatches == AtCompute =>
    /\ result.kind = "layout"
    /\ Last.ver = result.ver
    /\ Last.cfg = [base |-> result.base, mx |-> result.opts.mx, mn |-> result.opts.mn, ns |-> result.opts.ns,
                   alg |-> result.opts.alg, sw |-> result.opts.sw, dn |-> result.opts.dn]
\* C06: same layer and position for every label as a fresh engine on fresh labels
C06_Pure == AtCompute => Last.res = Last.ref
\* the same against a process with no history at all (a layout must not depend on what the process computed before)
C06_PureOfProcessHistory == AtCompute => (Last.err0 = "" /\ Last.res = Last.ref0)
C06_Defined == AtCompute => Last.err = ""
=============================================================================
