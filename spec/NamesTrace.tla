----------------------------- MODULE NamesTrace -----------------------------
(* Binding for C20: labella.utils.int2name chains and hex2* results.          *)
EXTENDS Names, Json, IOUtils
Trace == ndJsonDeserialize(IOEnv.TRACE_FILE)
VARIABLE r
TInit == r \in 1..Len(Trace)
TNext == UNCHANGED r
TSpec == TInit /\ [][TNext]_r
T == Trace[r]
\* a block of consecutive names int2name(i0), int2name(i0+1), ...: anchored at the spec's Name(i0),
\* each next one the shortlex successor (so all names of all blocks together are pairwise different)
C20_NameOrder == T.kind = "names" =>
    /\ T.names[1] = Name(T.i0)
    /\ \A j \in 1..(Len(T.names) - 1) : T.names[j + 1] = Succ(T.names[j])
\* "no two labels share a TeX colour or text macro": in a TikZ export the k-th datum's label, link and dot use the k-th name
\* (so the names of one drawing are pairwise different) - also when a datum is entered twice
C20_MacroNamesPerDatum == T.kind = "texnames" =>
    /\ T.err = ""
    /\ Len(T.labels) = T.n /\ Len(T.links) = T.n /\ Len(T.dots) = T.n
    /\ \A k \in 1..T.n : T.labels[k] = Name(k - 1) /\ T.links[k] = Name(k - 1) /\ T.dots[k] = Name(k - 1)
C20_ColoursAgree == T.kind = "hex" =>
    /\ ValidCode(T.code)
    /\ T.err = ""
    /\ <<T.rgb[1], T.rgb[2], T.rgb[3]>> = RGB(T.code)
    /\ T.rgbstr = RgbStr(T.code)
    /\ T.html = Html(T.code)
=============================================================================
