----------------------------- MODULE NamesTrace -----------------------------
(* Binding for C20: labella.utils.int2name chains and hex2* results.          *)
EXTENDS Names, Json, IOUtils
Trace == ndJsonDeserialize(IOEnv.TRACE_FILE)
VARIABLE r
TInit == r \in 1..Len(Trace)
TNext == UNCHANGED r
TSpec == TInit /\ [][TNext]_r
T == Trace[r]
\* a block of consecutive names int2name(i0), int2name(i0+1), ...: anchored at the spec's Name(i0),
\* each next one the shortlex successor (so all names of all blocks together are pairwise different)
C20_NameOrder == T.kind = "names" =>
    /\ T.names[1] = Name(T.i0)
    /\ \A j \in 1..(Len(T.names) - 1) : T.names[j + 1] = Succ(T.names[j])
C20_ColoursAgree == T.kind = "hex" =>
    /\ ValidCode(T.code)
    /\ T.err = ""
    /\ <<T.rgb[1], T.rgb[2], T.rgb[3]>> = RGB(T.code)
    /\ T.rgbstr = RgbStr(T.code)
    /\ T.html = Html(T.code)
=============================================================================
