SPECIFICATION TSpec
INVARIANT C02_WithinHalfOfOptimum
INVARIANT OracleCertified
CHECK_DEADLOCK FALSE
