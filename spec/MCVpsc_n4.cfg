SPECIFICATION SpecD
CONSTANTS
  N = 4
  Des = {0,1,2}
  Gaps = {0,1,2}
  Weights = {1}
  Scales = {1}
  AllowCycles = FALSE
  StopRule = "no-change"
  OneMerge = TRUE
  Det = FALSE
INVARIANT Feasible
INVARIANT Certified
INVARIANT NoFlagInDag
INVARIANT Forest
INVARIANT Bound
CHECK_DEADLOCK TRUE
