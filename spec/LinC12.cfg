SPECIFICATION TSpec
INVARIANT C12_EndpointsExact
INVARIANT C12_Affine
INVARIANT C12_ClampInside
INVARIANT C12_Monotone
INVARIANT C12_InverseBothWays
CHECK_DEADLOCK FALSE
