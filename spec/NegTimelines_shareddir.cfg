SPECIFICATION Spec
CONSTANTS
  Ids = {1, 2}
  Cfgs = {"c1", "c2", "c3", "c5", "c6", "c7"}
  OwnScaleCfgs = {"c3"}
  NiceSensitive = {"c7"}
  NoOptCfgs = {"c7", "c9", "c10", "c11"}
  ShareWhenOmitted = FALSE
  FitAxisAtExport = FALSE
  ReadsSharedDirection = TRUE
  ShareDefaultScale = FALSE
  MaxLen = 4
INVARIANT Isolation
PROPERTY Idempotent
CHECK_DEADLOCK FALSE
