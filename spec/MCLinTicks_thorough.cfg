SPECIFICATION Spec
CONSTANTS
  NegLo = 60
  Hi = 60
  Unit = 1000
  Ms <- AllMs
INVARIANT StepExists
INVARIANT StepIsRound
INVARIANT TicksInside
INVARIANT TickCount
INVARIANT NiceWidens
INVARIANT NiceTwoSteps
INVARIANT NiceRound
CHECK_DEADLOCK FALSE
