SPECIFICATION TSpec
INVARIANT C05_Terminates
INVARIANT C05_Feasible
INVARIANT C05_NoFlagInDag
INVARIANT C05_CostConsistent
CHECK_DEADLOCK FALSE
