SPECIFICATION TSpec
INVARIANT C05_Terminates
INVARIANT C05_Feasible
INVARIANT C05_NoFlagInDag
INVARIANT C05_CostConsistent
INVARIANT C05_CostConsistentFine
INVARIANT C05_NoBetterFeasiblePoint
CHECK_DEADLOCK FALSE
