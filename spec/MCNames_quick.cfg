SPECIFICATION Spec
CONSTANTS
  MaxI = 60000
  NB = 256
INVARIANT NameOrder
INVARIANT Increasing
INVARIANT ByteRoundTrip
INVARIANT ExpandDoubles
CHECK_DEADLOCK FALSE
