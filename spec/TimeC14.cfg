SPECIFICATION TSpec
INVARIANT C14_Defined
INVARIANT C14_NeverInward
INVARIANT C14_KeepsOrientation
INVARIANT C14_LessThanTwoTickSteps
INVARIANT C14_AlignedAsTicks
CHECK_DEADLOCK FALSE
