SPECIFICATION Spec
CONSTANTS
  Ids = {1, 2}
  Cfgs = {"c1", "c3", "c7", "c9"}
  OwnScaleCfgs = {"c3"}
  NiceSensitive = {"c7"}
  NoOptCfgs = {"c7", "c9", "c10", "c11"}
  ShareWhenOmitted = TRUE
  FitAxisAtExport = FALSE
  ReadsSharedDirection = FALSE
  ShareDefaultScale = FALSE
  MaxLen = 4
INVARIANT Isolation
PROPERTY Idempotent
CHECK_DEADLOCK FALSE
