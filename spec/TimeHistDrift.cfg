SPECIFICATION T2Spec
CONSTANTS
  MaxScales = 4
  MaxLen = 64
  RescaleOnSameList = TRUE
  KeepCallersList = FALSE
  ShareListsOnCopy = FALSE
  Doms = {"dA", "dB", "dC"}
  Rngs = {"rA", "rB"}
  NiceMs = {"10", "2"}
INVARIANT Drift_CopyIndependent
INVARIANT Drift_EqualInModelEqualObserved
CHECK_DEADLOCK FALSE
