SPECIFICATION Spec
CONSTANTS
  NMax = 3
  Ideals = {0, 4, 6, 8, 18}
  Widths = {4, 14}
  Mins <- MinSet
  Maxs <- MaxSet
  Dens <- DensSet
  NSs = {0, 4, 12}
  SWs = {0, 4}
  Algs = {"overlap", "simple", "none"}
  NB = 256
INVARIANT ModelOrdered
INVARIANT ModelSeparatedAdjacent
INVARIANT ModelInsideWhenFits
INVARIANT ModelSpillKeepsSeparation
INVARIANT ModelWithinHalf
INVARIANT ModelChains
CHECK_DEADLOCK FALSE
