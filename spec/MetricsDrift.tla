---------------------------- MODULE MetricsDrift ----------------------------
(* Conformance of Metrics.tla with labella.metrics evaluated by the real code  *)
(* on Force.getLayers() (logged next to the layout record).  Drift only.      *)
EXTENDS Metrics, Json, IOUtils
Trace == ndJsonDeserialize(IOEnv.TRACE_FILE)
VARIABLE r
TInit == r \in 1..Len(Trace)
TNext == UNCHANGED r
TSpec == TInit /\ [][TNext]_r
T == Trace[r]
L == T.layers
O == T.opts
M == T.metrics
Drift_MetricsAgree == T.hasmetrics = 1 =>
    /\ M.wa = WA(L, 1)
    /\ M.was = WAS(L, 1)
    /\ M.over2 = Overflow2(L, O.hasMin, O.minPos, O.hasMax, O.maxPos)
    /\ M.oc0 = OC(L, 1, 0)
    /\ M.ocbuf = OC(L, 1, 2 * M.buf)
    /\ LET d == Displacement(L) IN M.dispnum = d[1] /\ M.dispden = d[2]
=============================================================================
