SPECIFICATION Spec
CONSTANTS
  NegLo = 20
  Hi = 20
  Unit = 1000
  Ms = {1, 2, 3, 5, 7, 10, 13, 20, 37, 50, 100}
INVARIANT NiceOnePassRound
CHECK_DEADLOCK FALSE
