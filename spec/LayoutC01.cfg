SPECIFICATION TSpec
INVARIANT C01_Ordered
INVARIANT C01_SeparatedAdjacent
INVARIANT C01_SeparatedExceptSandwich
INVARIANT C01_SeparatedAllPairs
CHECK_DEADLOCK FALSE
