------------------------------ MODULE LinTicks ------------------------------
(***************************************************************************)
(* d3-style linear ticks and nice() (labella/scale.py:                     *)
(* d3_scale_linearTickRange / linearTicks / linearTickFormat / linearNice) *)
(* on integers.  A domain [lo, hi] is given in integer units; the step is  *)
(* a pair <<mant, e>> meaning mant * 10^e units, mant in {1, 2, 5}.        *)
(* Because the tick step only depends on span/m up to powers of ten, the   *)
(* integer model with e >= -3 covers every decade by scaling.              *)
(***************************************************************************)
EXTENDS Integers, Sequences, FiniteSets, TLC

Pow10(k) == CASE k = 0 -> 1 [] k = 1 -> 10 [] k = 2 -> 100 [] k = 3 -> 1000 [] k = 4 -> 10000
              [] k = 5 -> 100000 [] k = 6 -> 1000000 [] k = 7 -> 10000000 [] k = 8 -> 100000000
              [] OTHER -> 1000000000
CAbsL(a) == IF a < 0 THEN -a ELSE a
Min2(a, b) == IF a < b THEN a ELSE b
Max2(a, b) == IF a > b THEN a ELSE b
FloorDiv(a, b) == a \div b                    \* TLC's \div floors for b > 0
CeilDiv(a, b) == -((-a) \div b)

\* Everything is computed in milli-units (x1000) so that steps down to 10^-3 units are integers.
\* K(span, m): the largest k in -3..6 with 10^k * m <= span  (step0 = 10^k)
RECURSIVE KRec(_, _, _)
KRec(span, m, k) == IF k < 0 THEN -1 ELSE IF Pow10(k) * m <= span THEN k ELSE KRec(span, m, k - 1)
\* admissible steps in milli-units for a span given in milli-units: ties on a threshold admit both branches
Steps(spanM, m) ==
    LET k == KRec(spanM, m, 7)           \* step0 = 10^k milli-units
        s0 == Pow10(k)
        \* err = m / span * step0 ;  err <= 0.15  <=>  100*m*s0 <= 15*span
        \* (thresholds as 3/20, 7/20, 3/4 to stay inside 32 bits for spans up to 1e8)
        c10 == 20 * m * s0 <= 3 * spanM
        c10x == 20 * m * s0 < 3 * spanM
        c5 == 20 * m * s0 <= 7 * spanM
        c5x == 20 * m * s0 < 7 * spanM
        c2 == 4 * m * s0 <= 3 * spanM
        c2x == 4 * m * s0 < 3 * spanM
    IN  (IF c10 THEN {10 * s0} ELSE {})
        \cup (IF ~c10x /\ c5 THEN {5 * s0} ELSE {})
        \cup (IF ~c5x /\ c2 THEN {2 * s0} ELSE {})
        \cup (IF ~c2x THEN {s0} ELSE {})

\* ticks of [lo, hi] (milli-units, lo <= hi) for a step s: the multiples of s inside
TickNs(lo, hi, s) == CeilDiv(lo, s)..FloorDiv(hi, s)

\* ---- declarative predicates (C13) on a step s (milli-units) and the set of tick numbers N
StepForm(s) == \E k \in 0..9 : s \in {Pow10(k), 2 * Pow10(k), 5 * Pow10(k)}
Complete(lo, hi, s, N) == \A n \in (CeilDiv(lo, s) - 1)..(FloorDiv(hi, s) + 1) : (lo <= n * s /\ n * s <= hi) => n \in N
InDomain(lo, hi, s, N) == \A n \in N : lo <= n * s /\ n * s <= hi
CountBounds(m, cnt) == 100 * cnt >= 57 * m - 99 /\ 100 * cnt <= 143 * m + 100      \* floor(0.57 m) <= cnt <= 1.43 m + 1

\* ---- nice (C14, linear): two passes of floor/ceil to the tick step
NiceOnce(lo, hi, m) == {<<FloorDiv(lo, s) * s, CeilDiv(hi, s) * s>> : s \in Steps(hi - lo, m)}
Nice(lo, hi, m) == UNION {NiceOnce(d[1], d[2], m) : d \in NiceOnce(lo, hi, m)}
NeverInward(lo, hi, d) == d[1] <= lo /\ d[2] >= hi
LessThanTwoSteps(lo, hi, d, m) == \E s \in Steps(d[2] - d[1], m) : lo - d[1] < 2 * s /\ d[2] - hi < 2 * s
OnTenthOfStep(d, m) == \E s \in Steps(d[2] - d[1], m) : (10 * d[1]) % s = 0 /\ (10 * d[2]) % s = 0

\* label precision: decimals = max(0, -floor(log10(step) + 0.01)) ; step in milli-units
Decimals(s) == IF s >= 1000 THEN 0 ELSE IF s >= 100 THEN 1 ELSE IF s >= 10 THEN 2 ELSE 3
=============================================================================
