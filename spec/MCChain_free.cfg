SPECIFICATION SpecFree
CONSTANTS
  NMax = 4
  Targets = {0, 4, 6, 8}
  Widths = {4, 14}
  Kinds = {"L", "S"}
  NS = {0, 4, 12}
  UU = 4
  MinOpts <- NoOpt
  MaxOpts <- NoOpt
  StopRule = "no-change"
  OneMerge = TRUE
  Det = TRUE
INVARIANT OracleKKT
INVARIANT RefinesSolver
INVARIANT RoundedSep
INVARIANT RoundedOrdered
INVARIANT NotMoved
CHECK_DEADLOCK TRUE
