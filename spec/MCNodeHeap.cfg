SPECIFICATION Spec
CONSTANTS
  MaxNodes = 4
  MaxLen = 5
  Ideals = {0, 6}
  Widths = {4, 6}
  StubWidths = {0, 4}
  Positions = {2}
  Disciplined = TRUE
INVARIANT ParentYounger
INVARIANT PointersAgree
INVARIANT ChainSharesIdeal
INVARIANT RootKind
INVARIANT OneParentPerChild
PROPERTY StubStartsAtChild
CHECK_DEADLOCK FALSE
