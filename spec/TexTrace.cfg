SPECIFICATION TSpec
INVARIANT C19_Defined
INVARIANT C19_AsciiUntouched
INVARIANT C19_OnlyAccentsReplaced
INVARIANT C19_RoundTrip
CHECK_DEADLOCK FALSE
