SPECIFICATION TSpec
CONSTANTS
  Sets = {"A", "B"}
  Perms = {"PA", "PB"}
  Deltas = {"d1", "d2", "d3", "d4", "d5", "d6", "d7", "d8", "d9"}
  Mech = {"stubs", "pos", "order", "ovl", "meas"}
  MaxLen = 64
INVARIANT C06_Defined
INVARIANT C06_Pure
INVARIANT C06_PureOfProcessHistory
INVARIANT CfgMatches
CHECK_DEADLOCK TRUE
