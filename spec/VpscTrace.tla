----------------------------- MODULE VpscTrace -----------------------------
(* Binding for C05 (small exact envelope).  Every record is one solver run   *)
(* observed from the real labella.vpsc: the instance, the final positions     *)
(* (x 10^4), the unsatisfiable flags and the returned cost.  TLC runs the     *)
(* deterministic refinement (Det = TRUE) of the operational model Vpsc.tla    *)
(* on the same instance up to its certified optimum and compares.             *)
EXTENDS Vpsc, Json, IOUtils, BigNat

Trace == ndJsonDeserialize(IOEnv.TRACE_FILE)
VARIABLE r
tvars == <<vars, r>>
T == Trace[r]
U == 10000

TInit == /\ r \in 1..Len(Trace)
         /\ nv = Trace[r].n
         /\ des = [v \in 1..Trace[r].n |-> Trace[r].des[v]]
         /\ wt = [v \in 1..Trace[r].n |-> Trace[r].wt[v]]
         /\ sc = [v \in 1..Trace[r].n |-> Trace[r].sc[v]]
         /\ cons = [c \in 1..Len(Trace[r].cl) |-> [l |-> Trace[r].cl[c], r |-> Trace[r].cr[c], g |-> Trace[r].cg[c]]]
         /\ Control0
Stutter == pc = "done" /\ UNCHANGED tvars
TNext == (Next /\ UNCHANGED r) \/ Stutter
TSpec == TInit /\ [][TNext]_tvars

Done == pc = "done"
Flag(c) == T.uns[c] = 1
\* ---- verdict predicates: evaluated on the OBSERVED result once the model has its optimum
\* every constraint the code did not flag holds (tolerance 2e-4 on scaled integers)
C05_Feasible == Done => (T.terminated = 1 =>
                  \A c \in CSet : Flag(c) \/ sc[R(c)] * T.pos[R(c)] - sc[L(c)] * T.pos[L(c)] - G(c) * U >= -2)
C05_Terminates == Done => T.terminated = 1
C05_NoFlagInDag == Done => (T.acyclic = 1 => \A c \in CSet : ~Flag(c))
\* unique optimum of a strictly convex QP: observed positions equal the model's certified
\* optimum (|x_obs - x*| <= 1e-3), hence the cost cannot be beaten by more than ~1e-2
WithinTol(v) == LET p == Pos(active, v) IN Abs(T.pos[v] * p[2] - p[1] * U) <= 10 * p[2]
C05_Optimal == Done => ((T.terminated = 1 /\ T.acyclic = 1 /\ unsat = {}) => \A v \in V : WithinTol(v))
\* the model's own end state is a certified optimum (feasible + multipliers >= 0)
ModelCertified == Done => (\A c \in CSet \ unsat : RLe(Zero, Slack(active, c))) /\ (\A c \in active : RLe(Zero, LM(active, c)))
\* reported cost equals the cost of the reported positions:  units 1e-12 (pos6 = x*10^6)
CostOfObserved == BSumSeq([v \in 1..nv |-> BMul(BFromInt(wt[v]), BSq(T.pos6[v] - des[v] * 1000000))], 1)
C05_CostConsistent == Done => (T.terminated = 1 =>
     \* tolerance = effect of rounding the positions to 1e-6 (sum of w*(|x-d|+1) units) + 1e-6 + 1e-8 relative
     LET c == CostOfObserved
         rnd == BSumSeq([v \in 1..nv |-> BMul(BFromInt(wt[v]), BAbsInt(Abs(T.pos6[v] - des[v] * 1000000) + 1))], 1)
         tol == BAdd(rnd, BAdd(BFromInt(1000000), BShiftR(c, 2)))
     IN BWf(T.ret12) /\ BLe(c, BAdd(T.ret12, tol)) /\ BLe(T.ret12, BAdd(c, tol)))
TBound == nsat <= 8 * nv + 8
=============================================================================
