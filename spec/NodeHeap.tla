------------------------------ MODULE NodeHeap ------------------------------
(***************************************************************************)
(* labella.node.Node objects as a heap: labels, the stubs chained above    *)
(* them, and the geometric helpers other modules call on them.             *)
(*                                                                         *)
(* A node is [ideal, cur, w, parent, child, layer]; parent/child are node  *)
(* ids (0 = None), ids are creation order.  Coordinates are integers in    *)
(* quarter units (positions are multiples of 1/2 in the drivers, so every  *)
(* half-width is exact).                                                   *)
(*                                                                         *)
(*   New(i, w)        Node(idealPos, width): currentPos = idealPos         *)
(*   CreateStub(n, w) stub above n: copies n's ideal AND current position, *)
(*                    child = n; n.parent = stub.  The code does not look  *)
(*                    at an existing parent of n: it is simply overwritten *)
(*                    (the old stub keeps pointing at n) - modelled so.    *)
(*   RemoveStub(n)    detaches n from its parent only (the rest of an old  *)
(*                    chain stays linked among itself, unreachable from n) *)
(*   Move(n, p), MoveToIdeal(n), Clone(n) (no links, same layer index)     *)
(*                                                                         *)
(* Disciplined = TRUE restricts CreateStub to nodes without a parent, as   *)
(* Force.compute() guarantees by calling removeStub() on every label       *)
(* first; the pointer invariants are stated for that discipline.           *)
(***************************************************************************)
EXTENDS Integers, Sequences, FiniteSets, TLC

CONSTANTS MaxNodes, MaxLen, Ideals, Widths, StubWidths, Positions, Disciplined

VARIABLES nodes, h
vars == <<nodes, h>>

NN == Len(nodes)
Ids == 1..NN
Fresh(i, c, w, ch, ly) == [ideal |-> i, cur |-> c, w |-> w, parent |-> 0, child |-> ch, layer |-> ly]
Log(a, n, x, y) == h' = Append(h, [a |-> a, n |-> n, x |-> x, y |-> y])

Init == nodes = <<>> /\ h = <<>>

New(i, w) == /\ NN < MaxNodes
             /\ nodes' = Append(nodes, Fresh(i, i, w, 0, 0)) /\ Log("N", 0, i, w)
CreateStub(n, w) == /\ NN < MaxNodes /\ (Disciplined => nodes[n].parent = 0)
                    /\ nodes' = Append([nodes EXCEPT ![n].parent = NN + 1], Fresh(nodes[n].ideal, nodes[n].cur, w, n, 0))
                    /\ Log("S", n, w, 0)
RemoveStub(n) == /\ nodes' = IF nodes[n].parent = 0 THEN nodes
                             ELSE [nodes EXCEPT ![nodes[n].parent].child = 0, ![n].parent = 0]
                 /\ Log("R", n, 0, 0)
Move(n, p) == nodes' = [nodes EXCEPT ![n].cur = p] /\ Log("M", n, p, 0)
MoveToIdeal(n) == nodes' = [nodes EXCEPT ![n].cur = nodes[n].ideal] /\ Log("I", n, 0, 0)
Clone(n) == /\ NN < MaxNodes
            /\ nodes' = Append(nodes, Fresh(nodes[n].ideal, nodes[n].cur, nodes[n].w, 0, nodes[n].layer)) /\ Log("C", n, 0, 0)

Next == /\ Len(h) < MaxLen
        /\ \/ \E i \in Ideals, w \in Widths : New(i, w)
           \/ \E n \in Ids : \/ \E w \in StubWidths : CreateStub(n, w)
                             \/ RemoveStub(n)
                             \/ \E p \in Positions : Move(n, p)
                             \/ MoveToIdeal(n)
                             \/ Clone(n)
Spec == Init /\ [][Next]_vars

\* ---------------------------------------------------------------- what callers observe
IsStub(n) == nodes[n].child # 0
RECURSIVE PathToRoot(_)
PathToRoot(n) == IF nodes[n].parent = 0 THEN <<n>> ELSE <<n>> \o PathToRoot(nodes[n].parent)
Root(n) == LET p == PathToRoot(n) IN p[Len(p)]
Abs(x) == IF x < 0 THEN -x ELSE x
RECURSIVE PathLength(_)
PathLength(n) == IF nodes[n].parent = 0 THEN Abs(nodes[n].cur - nodes[n].ideal)
                 ELSE Abs(nodes[n].cur - nodes[nodes[n].parent].cur) + PathLength(nodes[n].parent)
\* doubled coordinates (eighth units): 2*cur -/+ w
Left2(n) == 2 * nodes[n].cur - nodes[n].w
Right2(n) == 2 * nodes[n].cur + nodes[n].w
Max2(a, b) == IF a > b THEN a ELSE b
Min2(a, b) == IF a < b THEN a ELSE b
Distance2(a, b) == Max2(Left2(a), Left2(b)) - Min2(Right2(a), Right2(b))
OverlapWithNode(a, b, buf) == Distance2(a, b) - 2 * buf < 0
OverlapWithPoint(a, pos) == 2 * pos >= Left2(a) /\ 2 * pos <= Right2(a)
PositionBefore2(a, b, buf) == Left2(b) - nodes[a].w - 2 * buf
PositionAfter2(a, b, buf) == Right2(b) + nodes[a].w + 2 * buf
Displacement(n) == nodes[n].ideal - nodes[n].cur

\* ---------------------------------------------------------------- invariants
\* a parent is always created after its child: the walk to the root terminates
ParentYounger == \A n \in Ids : nodes[n].parent # 0 => nodes[n].parent > n /\ nodes[n].parent <= NN
\* under the engine's discipline the two pointers agree
PointersAgree == Disciplined => /\ \A n \in Ids : nodes[n].parent # 0 => nodes[nodes[n].parent].child = n
                                /\ \A s \in Ids : nodes[s].child # 0 => nodes[nodes[s].child].parent = s
\* negative self-test: without the discipline (createStub on a node that still has a parent) the pointers disagree
Undisciplined_PointersAgree == \A s \in Ids : nodes[s].child # 0 => nodes[nodes[s].child].parent = s
\* every node of a chain carries the datum's position: the link of a label starts at its own dot (C07)
ChainSharesIdeal == Disciplined => \A n \in Ids : \A k \in 1..Len(PathToRoot(n)) : nodes[PathToRoot(n)[k]].ideal = nodes[n].ideal
\* a label (not a stub) with a parent has a stub as root; without a parent it is its own root
RootKind == Disciplined => \A n \in Ids : IF nodes[n].parent = 0 THEN Root(n) = n ELSE IsStub(Root(n))
\* a node is the child of at most one stub
OneParentPerChild == Disciplined => \A s, t \in Ids : (s # t /\ nodes[s].child # 0) => nodes[s].child # nodes[t].child
\* a fresh stub sits exactly above its child: it adds nothing to the path length at creation (action property)
StubStartsAtChild == [][\A n \in Ids : (NN' = NN + 1 /\ nodes'[NN'].child = n) => nodes'[NN'].cur = nodes[n].cur /\ nodes'[NN'].ideal = nodes[n].ideal]_vars
=============================================================================
