------------------------------ MODULE CalTrace ------------------------------
(* Binding for C17: call/return records of labella.d3_time.d3_time[unit]      *)
(* (floor, ceil, round, offset, range), instants projected to <<day, ms>>.    *)
EXTENDS Calendar, Json, IOUtils

Trace == ndJsonDeserialize(IOEnv.TRACE_FILE)
VARIABLE r
TInit == r \in 1..Len(Trace)
TNext == UNCHANGED r
TSpec == TInit /\ [][TNext]_r
T == Trace[r]
In == <<T.t[1], T.t[2]>>
Out == <<T.out[1], T.out[2]>>
Exact(o) == o[3] = 0                              \* no sub-millisecond residue

\* the harness's projection agrees with the spec's calendar (datetime's own civil fields are logged)
CalendarAgrees == CivilFromDays(T.t[1]) = <<T.civ[1], T.civ[2], T.civ[3]>> /\ Weekday(T.t[1]) = T.civ[4]
OffsetInputIsBoundary == T.op \in {"offset"} => IsBoundary(T.u, In)

C17_Defined == T.err = ""
C17_Floor == (T.op = "floor" /\ T.err = "") => Exact(T.out) /\ IsFloor(T.u, In, Out)
C17_Ceil == (T.op = "ceil" /\ T.err = "") => Exact(T.out) /\ IsCeil(T.u, In, Out)
C17_Round == (T.op = "round" /\ T.err = "") => Exact(T.out) /\ IsRound(T.u, In, Out)
C17_Offset == (T.op = "offset" /\ T.err = "") => Exact(T.out) /\ IsKthFollowing(T.u, In, T.k, Out)
C17_Range == (T.op = "range" /\ T.err = "") =>
    /\ \A i \in 1..Len(T.outs) : Exact(T.outs[i])
    /\ IsRange(T.u, In, <<T.t1[1], T.t1[2]>>, T.step, [i \in 1..Len(T.outs) |-> <<T.outs[i][1], T.outs[i][2]>>])
\* week ranges with a step >= 2: the property does not define the unit number of a week, but under ANY numbering that
\* grows by one per week inside a year, the listed Sundays of one calendar year are exactly `step` weeks apart
WeekOuts == [i \in 1..Len(T.outs) |-> <<T.outs[i][1], T.outs[i][2]>>]
C17_WeekRangeSpacing == (T.op = "wrange" /\ T.err = "") =>
    /\ \A i \in 1..Len(T.outs) : Exact(T.outs[i]) /\ IsBoundary("week", WeekOuts[i])
                                   /\ TLe(In, WeekOuts[i]) /\ TLt(WeekOuts[i], <<T.t1[1], T.t1[2]>>)
    /\ \A i \in 1..(Len(T.outs) - 1) :
          /\ TLt(WeekOuts[i], WeekOuts[i + 1])
          /\ YearOf(WeekOuts[i][1]) = YearOf(WeekOuts[i + 1][1]) => WeekOuts[i + 1][1] - WeekOuts[i][1] = 7 * T.step
=============================================================================
