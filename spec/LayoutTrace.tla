---------------------------- MODULE LayoutTrace ----------------------------
(* Binding for C01-C04: every record is one Force.compute() observed from    *)
(* the real code (driver harness/drivers/d_layout.py): options, input         *)
(* labels, and per layer the items in chain order with target, width and      *)
(* final position, the parent/child stub chains, and Force.getLayers().       *)
(* TLC evaluates the property predicates of Chain.tla and the structural      *)
(* predicates below on every record.                                          *)
EXTENDS Chain, Json, IOUtils

Trace == ndJsonDeserialize(IOEnv.TRACE_FILE)
VARIABLE r
TInit == r \in 1..Len(Trace)
TNext == UNCHANGED r
TSpec == TInit /\ [][TNext]_r
T == Trace[r]
U == T.U
O == T.opts
Layers == T.layers
K == Len(Layers)
NonEmpty(k) == Len(Layers[k]) > 0

\* ---------------------------------------------------------------- C01
C01_Ordered == \A k \in 1..K : Ordered(Layers[k])
C01_SeparatedAdjacent == \A k \in 1..K : SeparatedAdj(Layers[k], O.ns, U)
\* the statement read literally: any two items that share a layer
C01_SeparatedAllPairs == \A k \in 1..K : Separated(Layers[k], O.ns, U)
\* the same, exempting only pairs for which the chain of neighbour gaps between them adds up to
\* less than the pair's own demand (two stubs around labels narrower than 2 - 2*spacing; known
\* finding F-01): everything else must hold
C01_SeparatedExceptSandwich == \A k \in 1..K : SeparatedModuloChain(Layers[k], O.ns, U)

\* ---------------------------------------------------------------- C03
C03_Inside == \A k \in 1..K : (NonEmpty(k) /\ Fits(Layers[k], O, U)) => Inside(Layers[k], O, U)
C03_SpillKeepsSeparation == \A k \in 1..K : (NonEmpty(k) /\ ~Fits(Layers[k], O, U)) => SeparatedAdj(Layers[k], O.ns, U)

\* ---------------------------------------------------------------- C02 (lattice records only)
\* layers that fit (or have no upper bound); chain order known (T.order = 1) or no tie with different widths
TieFree(Ly) == \A i \in 1..(Len(Ly) - 1) : Ly[i].t = Ly[i + 1].t => (Ly[i].w = Ly[i + 1].w /\ Ly[i].k = Ly[i + 1].k)
C02Applies(k) == /\ T.lattice = 1 /\ NonEmpty(k) /\ Fits(Layers[k], O, U) /\ ChainSorted(Layers[k])
                 /\ (T.order = 1 \/ TieFree(Layers[k]))
C02_WithinHalfOfOptimum == \A k \in 1..K : C02Applies(k) => WithinHalf(Layers[k], O, U)
\* the oracle certifies itself (a failure here is a defect of the specification, not of the code)
OracleCertified == \A k \in 1..K : C02Applies(k) => ChainKKT(Layers[k], O, U)

\* ---------------------------------------------------------------- C04
LabelIds == {T.labels[i].id : i \in 1..Len(T.labels)}
Items(k) == {Layers[k][i] : i \in 1..Len(Layers[k])}
LabelsIn(k) == {it \in Items(k) : it.k = "L"}
StubsIn(k) == {it \in Items(k) : it.k = "S"}
LayerOf(id) == CHOOSE k \in 1..K : \E it \in LabelsIn(k) : it.id = id
NumIn(k, kind, id) == Cardinality({i \in 1..Len(Layers[k]) : Layers[k][i].k = kind /\ Layers[k][i].id = id})
C04_Conservation ==
    /\ \A id \in LabelIds : (\E k \in 1..K : NumIn(k, "L", id) = 1) /\ Cardinality({k \in 1..K : NumIn(k, "L", id) > 0}) = 1
    /\ \A k \in 1..K : \A it \in Items(k) : it.id \in LabelIds /\ it.k \in {"L", "S"}
    /\ T.foreign = 0
\* layers holding items are exactly 1..K' (trailing empty layers are ignored: no layer number is skipped)
C04_Contiguous == \A k \in 1..K : NonEmpty(k) => \A j \in 1..k : NonEmpty(j)
C04_Chains == \A id \in LabelIds : LET k == LayerOf(id) IN
    /\ \A j \in 1..(k - 1) : NumIn(j, "S", id) = 1
    /\ \A j \in k..K : NumIn(j, "S", id) = 0
    /\ \A j \in 1..K : \A it \in StubsIn(j) : it.id = id =>
          /\ it.w = O.stubW /\ it.ideal = T.labels[id].ideal /\ it.dataok = 1
          /\ it.childlayer = j + 1                      \* its child is this label's item one layer outward
          /\ it.parentlayer = (IF j = 1 THEN 0 ELSE j - 1)
    /\ \A it \in LabelsIn(k) : it.id = id => it.parentlayer = (IF k = 1 THEN 0 ELSE k - 1)
    /\ T.chainlen[id] = k - 1                           \* walking parent links from the label visits exactly k-1 stubs
C04_LayerIndexAttr == \A k \in 1..K : \A it \in Items(k) : it.li = k - 1
\* the engine reports exactly this layering
RefsOf(k) == {<<Layers[k][i].k, Layers[k][i].id>> : i \in 1..Len(Layers[k])}
C04_ReportedLayersMatch ==
    /\ T.hasrep = 1
    /\ Len(T.rep) >= K
    /\ \A k \in 1..Len(T.rep) :
         IF k <= K
         THEN /\ Len(T.rep[k]) = Len(Layers[k])
              /\ {<<T.rep[k][i][1], T.rep[k][i][2]>> : i \in 1..Len(T.rep[k])} = RefsOf(k)
         ELSE Len(T.rep[k]) = 0
\* capacity rules
NLabels == Len(T.labels)
RECURSIVE SumW(_, _)
SumW(s, i) == IF i > Len(s) THEN 0 ELSE s[i].w + SumW(s, i + 1)
Required(s) == IF Len(s) = 0 THEN 0 ELSE SumW(s, 1) + (Len(s) - 1) * O.ns
HasWidth == O.hasMin = 1 /\ O.hasMax = 1 /\ O.maxPos - O.minPos > 0
LW == O.maxPos - O.minPos
UsedLayers == Cardinality({k \in 1..K : NonEmpty(k)})
\* "labels that fit the density budget": required width <= density * layer width.  With a dyadic density the product is exact
\* in the code's floats, so equality is decided; otherwise only the strict case is (a tie admits both outcomes)
\* (and only on the quarter-unit lattice, where the code's float sums are exact: two-decimal values are not dyadic)
DyadicDensity == O.densD \in {1, 2, 4, 8} /\ U = 4
C04_SingleLayer ==
    /\ (O.alg = "none" \/ ~HasWidth) => UsedLayers = 1
    /\ (HasWidth /\ Required(T.labels) * O.densD < O.densN * LW) => UsedLayers = 1
    /\ (HasWidth /\ DyadicDensity /\ Required(T.labels) * O.densD = O.densN * LW) => UsedLayers = 1
C04_Capacity ==
    (O.alg = "overlap" /\ HasWidth /\ NLabels >= 3 /\ Required(T.labels) * O.densD > O.densN * LW) =>
        \A k \in 1..K : Cardinality(LabelsIn(k)) <= 2 \/ Required(Layers[k]) * O.densD <= O.densN * LW
=============================================================================
