------------------------------ MODULE MCLayout ------------------------------
(* Design-level check of the END-TO-END model (Layout.tla): on every label     *)
(* sequence of a lattice x every option combination the predicted layout has   *)
(* the properties C01 / C03 state (order of targets, neighbour separation less *)
(* the rounding unit, inside the walls when the layer fits) and the structure  *)
(* C04 states.  The all-pairs reading of C01 is false on this lattice for      *)
(* spacings below 1: known finding F-01 reproduced in the model (negative      *)
(* config).  Quarter units (U = 4).                                            *)
EXTENDS Layout, SequencesExt
CONSTANTS NMax, Ideals, Widths, Mins, Maxs, Dens, NSs, SWs, Algs, NB
UU == 4
LabelSet == [ideal : Ideals, w : Widths]
Seqs == UNION {[1..n -> LabelSet] : n \in 1..NMax}
WithIds(s) == [i \in 1..Len(s) |-> [id |-> i, ideal |-> s[i].ideal, w |-> s[i].w]]
\* a bound is <<present, value>>
OptSet == {[alg |-> a, mn |-> mn, mx |-> mx, dens |-> d, ns |-> n, sw |-> w] :
             a \in Algs, mn \in Mins, mx \in Maxs, d \in Dens, n \in NSs, w \in SWs}
SeqSeq == SetToSeq(Seqs)
OptSeq == SetToSeq(OptSet)
NO == Len(OptSeq)
NInst == Len(SeqSeq) * NO
VARIABLES i, stop
vars == <<i, stop>>
Blk == NInst \div NB + 1
MinI(a, b) == IF a < b THEN a ELSE b
Init == \E k \in 0..(NB - 1) : i = 1 + k * Blk /\ stop = MinI((k + 1) * Blk, NInst) /\ i <= NInst
Next == i < stop /\ i' = i + 1 /\ UNCHANGED stop
Spec == Init /\ [][Next]_vars
Labels == WithIds(SeqSeq[((i - 1) \div NO) + 1])
Opt == OptSeq[((i - 1) % NO) + 1]
OC == [ns |-> Opt.ns, hasMin |-> Opt.mn[1], minPos |-> Opt.mn[2], hasMax |-> Opt.mx[1], maxPos |-> Opt.mx[2]]
LW == Opt.mx[2] - Opt.mn[2]
OD == [alg |-> Opt.alg, hasLW |-> (IF Opt.mn[1] = 1 /\ Opt.mx[1] = 1 /\ LW # 0 THEN 1 ELSE 0), lw |-> LW,
       densN |-> Opt.dens[1], densD |-> Opt.dens[2], ns |-> Opt.ns, sw |-> Opt.sw]
P == Predict(Labels, OD, OC, UU)
LayersP == [j \in 1..Len(P) |-> P[j].items]
\* ---- C01 / C03 on the predicted layout
ModelOrdered == \A j \in 1..Len(P) : Ordered(LayersP[j])
ModelSeparatedAdjacent == \A j \in 1..Len(P) : SeparatedAdj(LayersP[j], Opt.ns, UU)
ModelInsideWhenFits == \A j \in 1..Len(P) : Fits(LayersP[j], OC, UU) => Inside(LayersP[j], OC, UU)
ModelSpillKeepsSeparation == \A j \in 1..Len(P) : ~Fits(LayersP[j], OC, UU) => SeparatedAdj(LayersP[j], Opt.ns, UU)
\* every position within half a unit of the layer's exact optimum (C02), by construction of the rounding
ModelWithinHalf == \A j \in 1..Len(P) : Fits(LayersP[j], OC, UU) => WithinHalf(LayersP[j], OC, UU)
\* ---- C04: every label once; a label of layer k has exactly one stub in every nearer layer and none deeper
ModelChains == \A id \in IdsOf(Labels) :
    LET own == {j \in 1..Len(P) : \E a \in 1..Len(LayersP[j]) : LayersP[j][a].id = id /\ LayersP[j][a].k = "L"}
    IN /\ Cardinality(own) = 1
       /\ LET k == CHOOSE j \in own : TRUE IN
            \A j \in 1..Len(P) : Cardinality({a \in 1..Len(LayersP[j]) : LayersP[j][a].id = id /\ LayersP[j][a].k = "S"}) = (IF j < k THEN 1 ELSE 0)
\* ---- negative: the all-pairs reading of C01 (known finding F-01: two stubs around a narrow label, spacing < 1)
ModelSeparatedAllPairs == \A j \in 1..Len(P) : Separated(LayersP[j], Opt.ns, UU)
MinSet == {<<0, 0>>, <<1, 0>>, <<1, -6>>}
MaxSet == {<<0, 0>>, <<1, 16>>, <<1, 32>>, <<1, 48>>}
MaxSetF01 == {<<1, 16>>}
MinSetF01 == {<<1, 0>>}
DensSetF01 == {<<1, 1>>}
DensSet == {<<1, 2>>, <<1, 1>>, <<17, 20>>}
MinSetQ == {<<0, 0>>, <<1, 0>>}
DensSetQ == {<<1, 2>>, <<17, 20>>}
=============================================================================
