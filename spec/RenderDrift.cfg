SPECIFICATION TSpec
INVARIANT Drift_BoxOrigin
INVARIANT Drift_BoxExtent
INVARIANT Drift_LinkPoints
INVARIANT Drift_LayerThickness
CHECK_DEADLOCK FALSE
