------------------------------ MODULE TimeTrace ------------------------------
(* Binding for C14 (time), C15, C16: call/return records of                   *)
(* labella.scale.TimeScale (ticks, nice, __call__, invert), instants          *)
(* projected to <<day, ms, us>>; mapped values as signed BigNat (x 1e9).      *)
EXTENDS Calendar, BigNat, Json, IOUtils

Trace == ndJsonDeserialize(IOEnv.TRACE_FILE)
VARIABLE r
TInit == r \in 1..Len(Trace)
TNext == UNCHANGED r
TSpec == TInit /\ [][TNext]_r
T == Trace[r]
I2(x) == <<x[1], x[2]>>
D0 == I2(T.dom[1])
D1 == I2(T.dom[2])
Lo == IF TLe(D0, D1) THEN D0 ELSE D1
Hi == IF TLe(D0, D1) THEN D1 ELSE D0
Tk(i) == I2(T.ticks[i])
N == Len(T.ticks)
Gap(i) == Diff(Tk(i + 1), Tk(i))                   \* <<days, ms>>
Twice(g) == NormT(2 * g[1], 2 * g[2])
DLe(x, y) == x = y \/ DLt(x, y)
Gaps == {Gap(i) : i \in 1..(N - 1)}
MinGap == CHOOSE g \in Gaps : \A x \in Gaps : DLe(g, x)
MaxGap == CHOOSE g \in Gaps : \A x \in Gaps : DLe(x, g)
SubSecond == N >= 2 /\ DLt(MinGap, <<0, 1000>>)
Slack == IF N < 2 \/ SubSecond THEN 1 ELSE 0        \* "to within a millisecond when the spacing is sub-second"
SpanD == Diff(Hi, Lo)

\* the calendar unit the spacing implies
Class(g) == IF ~DLt(g, <<365, 0>>) THEN "year" ELSE IF ~DLt(g, <<28, 0>>) THEN "month"
            ELSE IF ~DLt(g, <<1, 0>>) THEN "day" ELSE IF ~DLt(g, <<0, 3600000>>) THEN "hour"
            ELSE IF ~DLt(g, <<0, 60000>>) THEN "minute" ELSE IF ~DLt(g, <<0, 1000>>) THEN "second" ELSE "ms"

IsTicks == T.kind = "tticks"
\* ------------------------------------------------------------------ C16
C16_Defined == IsTicks => T.err = ""
C16_StrictlyIncreasing == IsTicks => \A i \in 1..(N - 1) : TLt(Tk(i), Tk(i + 1))
C16_InDomain == IsTicks => \A i \in 1..N : TLe(AddMs(Lo, -Slack), Tk(i)) /\ TLe(Tk(i), AddMs(Hi, Slack))
C16_BoundaryClass == (IsTicks /\ N >= 2 /\ Class(MinGap) # "ms") =>
                        \A i \in 1..N : T.ticks[i][3] = 0 /\ IsBoundary(Class(MinGap), Tk(i))
C16_GapRatio == (IsTicks /\ N >= 3) => DLe(MaxGap, Twice(MinGap))
\* m/2.4 - 1 <= n <= 2.4 m + 1 ; a domain shorter than m milliseconds gets one tick per millisecond
ShortDomain == SpanD[1] = 0 /\ SpanD[2] < T.m
C16_CountBounds == (IsTicks /\ T.err = "") =>
    IF ShortDomain THEN N \in {SpanD[2], SpanD[2] + 1}
    ELSE 12 * N + 12 >= 5 * T.m /\ 5 * N <= 12 * T.m + 5

\* ------------------------------------------------------------------ C14 (time)
IsNice == T.kind = "tnice"
N0 == I2(T.niced[1])
N1 == I2(T.niced[2])
NLo == IF TLe(N0, N1) THEN N0 ELSE N1
NHi == IF TLe(N0, N1) THEN N1 ELSE N0
C14_Defined == IsNice => T.err = ""
C14_NeverInward == (IsNice /\ T.err = "") => TLe(NLo, Lo) /\ TLe(Hi, NHi)
C14_KeepsOrientation == (IsNice /\ T.err = "") => (TLt(D1, D0) <=> TLt(N1, N0)) /\ N0 # N1
\* each end moves outward by less than two tick steps of the original domain's ticks
C14_LessThanTwoTickSteps == (IsNice /\ T.err = "" /\ N >= 2) =>
    /\ DLt(Diff(Lo, NLo), Twice(MaxGap))
    /\ DLt(Diff(NHi, Hi), Twice(MaxGap))
\* lands on an instant aligned at least as coarsely as the ticks (any millisecond when ticks are sub-second)
C14_AlignedAsTicks == (IsNice /\ T.err = "" /\ N >= 2 /\ Class(MinGap) # "ms") =>
    /\ T.niced[1][3] = 0 /\ T.niced[2][3] = 0
    /\ IsBoundary(Class(MinGap), N0) /\ IsBoundary(Class(MinGap), N1)

\* ------------------------------------------------------------------ C15
IsMap == T.kind = "tmap"
SB(n) == SBig(n)
Ms(t) == SAdd(SMul(SB(t[1]), SB(DAYMS)), SB(t[2]))      \* milliseconds since the epoch, signed BigNat
DT == SSub(Ms(D1), Ms(D0))
\* exact image (x 1e9):  y*DT = r0*DT + (r1 - r0)*(t - d0)
ExactNum(t) == SAdd(SMul(T.r0, DT), SMul(SSub(T.r1, T.r0), SSub(Ms(t), Ms(D0))))
\* tolerance 1e-9 relative to the range magnitude (+ 1e-9 absolute), times the extrapolation factor (>= 1).  All values are
\* x 1e9, so the comparison is  |err| * 1e9 <= factor * (|r0| + |r1| + 1e9)
E9 == SB(1000000000)
TolQ9 == SMul(SB(T.factor), SAdd(SAdd(SAbs(T.r0), SAbs(T.r1)), E9))
CloseTo(y, t) == SLe(SMul(SAbs(SSub(SMul(y, DT), ExactNum(t))), E9), SMul(TolQ9, SAbs(DT)))
C15_Proportional == IsMap => CloseTo(T.y, I2(T.t)) /\ CloseTo(T.y2, I2(T.t2))
C15_EndpointsMap == IsMap => T.at_d0 = 1 /\ T.at_d1 = 1
DirSign == (IF TLt(D0, D1) THEN 1 ELSE -1) * (SCmp(T.r1, T.r0))
\* (T.cmp is the exact comparison of the two floats; the x 1e9 projection is too coarse for instants 1 ms apart)
C15_StrictlyMonotone == (IsMap /\ TLt(I2(T.t), I2(T.t2))) => T.cmp = DirSign
\* invert returns the original instant to within a millisecond (instants inside the domain)
C15_InvertWithin1ms == (IsMap /\ T.inside = 1 /\ SCmp(T.r1, T.r0) # 0) =>
    LET d == Diff(I2(T.inv), I2(T.t)) IN d \in {<<0, 0>>, <<0, 1>>, <<-1, DAYMS - 1>>}
                                          /\ (d = <<0, 1>> => T.inv[3] = 0)
C15_AgreesWithLinear == IsMap => SLe(SMul(SAbs(SSub(T.y, T.ylin)), E9), TolQ9)
=============================================================================
