SPECIFICATION Spec
CONSTANTS
  Choice = "geometric"
  StartDays = {19750, 19783}
  StartMs = {0, 49031500}
  SpanDays = {1, 2, 3, 5, 7, 10, 14, 20, 30, 31, 45, 60, 90, 120, 180, 270, 365, 366, 500, 730, 1096, 1826, 3652, 7305, 18262, 36524, 73048, 91310}
  SpanMsSet = {1, 2, 5, 7, 8, 9, 10, 15, 30, 50, 100, 250, 500, 1000, 2000, 5000, 10000, 30000, 60000, 90000, 300000, 600000, 900000, 1800000, 3600000, 7200000, 10800000, 21600000, 43200000}
  Counts = {2, 10, 50}
  NB = 128
INVARIANT MethodExists
INVARIANT TicksOK
INVARIANT CountBound
INVARIANT NiceOK
CHECK_DEADLOCK FALSE
