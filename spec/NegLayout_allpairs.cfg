SPECIFICATION Spec
CONSTANTS
  NMax = 4
  Ideals = {12, 24}
  Widths = {2, 8}
  Mins <- MinSetF01
  Maxs <- MaxSetF01
  Dens <- DensSetF01
  NSs = {0}
  SWs = {10}
  Algs = {"simple"}
  NB = 16
INVARIANT ModelSeparatedAllPairs
CHECK_DEADLOCK FALSE
