----------------------------- MODULE LayoutDrift -----------------------------
(* Conformance of the END-TO-END model Layout.tla with layouts observed from   *)
(* the real Force.compute() (the lattice records of LayoutTrace): for every    *)
(* layer the same items, kinds, targets and - unless the prediction is         *)
(* ambiguous (a tie of targets, or an optimum exactly between two units) in    *)
(* this or an earlier layer - the same final positions.  Drift only.           *)
EXTENDS Layout, Json, IOUtils
Trace == ndJsonDeserialize(IOEnv.TRACE_FILE)
VARIABLE r
TInit == r \in 1..Len(Trace)
TNext == UNCHANGED r
TSpec == TInit /\ [][TNext]_r
T == Trace[r]
OD == [alg |-> T.opts.alg, hasLW |-> (IF T.opts.hasMin = 1 /\ T.opts.hasMax = 1 /\ T.opts.maxPos - T.opts.minPos # 0 THEN 1 ELSE 0),
       lw |-> T.opts.maxPos - T.opts.minPos, densN |-> T.opts.densN, densD |-> T.opts.densD, ns |-> T.opts.ns, sw |-> T.opts.stubW]
OC == [ns |-> T.opts.ns, hasMin |-> T.opts.hasMin, minPos |-> T.opts.minPos, hasMax |-> T.opts.hasMax, maxPos |-> T.opts.maxPos]
Labels == [k \in 1..Len(T.labels) |-> [id |-> T.labels[k].id, ideal |-> T.labels[k].ideal, w |-> T.labels[k].w]]
Applies == T.fresh = 1 /\ T.lattice = 1 /\ (OD.hasLW = 0 \/ OD.lw > 0)
P == Predict(Labels, OD, OC, T.U)
\* first layer (if any) from which on the prediction is ambiguous
ClearUpTo == LET A == {j \in 1..Len(P) : P[j].amb} IN IF A = {} THEN Len(P) ELSE (CHOOSE j \in A : \A k \in A : j <= k) - 1
SameItem(a, b) == a.k = b.k /\ a.id = b.id /\ a.t = b.t /\ a.w = b.w /\ a.p = b.p
Drift_LayoutPredicted == Applies =>
    /\ Len(P) = Len(T.layers)
    /\ \A j \in 1..ClearUpTo :
         /\ Len(P[j].items) = Len(T.layers[j])
         /\ \A i \in 1..Len(P[j].items) : \E o \in 1..Len(T.layers[j]) : SameItem(P[j].items[i], T.layers[j][o])
         \* the chain order itself, where the engine reported it
         /\ T.order = 1 => \A i \in 1..Len(P[j].items) : P[j].items[i].id = T.layers[j][i].id /\ P[j].items[i].k = T.layers[j][i].k
\* information only: the prediction was unambiguous for the whole layout
Info_FullyCompared == Applies => ClearUpTo = Len(P)
=============================================================================
