SPECIFICATION TSpec
INVARIANT C07_OnePerDatum
INVARIANT C07_DotsAtTrueTime
INVARIANT C07_OnAxis
INVARIANT C07_DotsOnAxisSegment
INVARIANT C07_TicksOnLine
INVARIANT C07_LinkShape
INVARIANT C07_BoxSize
INVARIANT C07_TextVerbatim
INVARIANT C07_TickText
INVARIANT C07_TickTextDenotesPosition
CHECK_DEADLOCK FALSE
