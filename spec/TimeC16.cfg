SPECIFICATION TSpec
INVARIANT C16_Defined
INVARIANT C16_StrictlyIncreasing
INVARIANT C16_InDomain
INVARIANT C16_BoundaryClass
INVARIANT C16_GapRatio
INVARIANT C16_CountBounds
CHECK_DEADLOCK FALSE
