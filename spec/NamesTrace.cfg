SPECIFICATION TSpec
INVARIANT C20_NameOrder
INVARIANT C20_MacroNamesPerDatum
INVARIANT C20_ColoursAgree
CHECK_DEADLOCK FALSE
