------------------------------ MODULE Pipeline ------------------------------
(***************************************************************************)
(* Timeline construction + export as a pipeline of stages with             *)
(* definedness guards (C11).  A descriptor abstracts one documented input: *)
(* count, time type, arrangement, span class, options shape, direction,    *)
(* algorithm, bounds, tick display, largest conflict cluster.              *)
(* Each guard is the definedness condition of the operators that C12-C17   *)
(* specify (uninterpolate on a degenerate domain, integer millisecond      *)
(* step, day stepping across month ends, ...); the constants say which of  *)
(* them the code handles (all TRUE = the repaired tree; negative configs   *)
(* flip one and TLC exhibits the stuck descriptor).                        *)
(***************************************************************************)
EXTENDS Integers, Sequences, FiniteSets, TLC
CONSTANTS OptionsNoneHandled, DegenerateDomainHandled, DegenerateTickFormatHandled, IntegerMsStep, DayStepByTimedelta

Counts == {1, 2, 5, 40}
TTypes == {"num", "date", "time", "datetime"}
Arrs == {"distinct", "equal", "unsorted"}
Spans == {"zero", "ms3", "ms7", "subsec", "s1", "day", "monthend", "leap", "yearend", "months31", "leapyears", "century"}
OptShapes == {"omitted", "empty", "partial"}
Dirs == {"up", "down", "left", "right"}
Algs == {"overlap", "simple", "none"}
\* ("maxonly": the lower bound switched off - minPos None - with an upper bound kept)
Bounds == {"none", "max", "zero", "maxonly", "narrow"}          \* ("narrow": a band narrower than a single label)
\* ("n1000" / "n703": that many labels in all - the claim goes up to 1000 - with a conflict cluster of 100)
Clusters == {"small", "c150", "c190", "c199", "c200", "c400", "n1000", "n703"}
Desc == [count : Counts, ttype : TTypes, arr : Arrs, span : Spans, opts : OptShapes, dir : Dirs, alg : Algs,
         bounds : Bounds, ticks : BOOLEAN, cluster : Clusters]
\* documented inputs: numeric times need a caller-supplied linear scale, i.e. options given
Valid(d) == (d.ttype = "num" => d.opts = "partial") /\ (d.cluster # "small" => d.count = 40)
Degenerate(d) == d.count = 1 \/ d.arr = "equal" \/ d.span = "zero" \/ (d.ttype = "date" /\ d.span \in {"ms3", "ms7", "subsec", "s1", "day"})
InClaim(d) == Valid(d) /\ d.cluster # "c400"        \* clusters beyond the recursion limit are outside the claim

VARIABLES desc, pc
vars == <<desc, pc>>
Init == desc \in Desc /\ Valid(desc) /\ pc = "merge"
Stage(from, guard, to) == pc = from /\ pc' = (IF guard THEN to ELSE "stuck") /\ UNCHANGED desc
Next == \/ Stage("merge", desc.opts = "omitted" => OptionsNoneHandled, "parse")
        \/ Stage("parse", TRUE, "axis")
        \/ Stage("axis", Degenerate(desc) => DegenerateDomainHandled, "layout")
        \/ Stage("layout", desc.cluster # "c400", "ticks")
        \/ Stage("ticks", (desc.ticks \/ desc.opts # "partial") =>
                             /\ (desc.span \in {"ms3", "ms7"} /\ desc.ttype \in {"datetime", "time"} /\ ~Degenerate(desc)) => IntegerMsStep
                             /\ (desc.span \in {"monthend", "leap", "yearend", "months31", "leapyears"} /\ desc.ttype # "num") => DayStepByTimedelta
                             /\ (Degenerate(desc) /\ desc.ttype = "num") => DegenerateTickFormatHandled, "emit")
        \/ Stage("emit", TRUE, "emitted")
        \/ (pc \in {"emitted", "stuck"} /\ UNCHANGED vars)
Spec == Init /\ [][Next]_vars /\ WF_vars(Next)
Total == InClaim(desc) => pc # "stuck"
Completes == <>(pc \in {"emitted", "stuck"})
=============================================================================
