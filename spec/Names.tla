-------------------------------- MODULE Names --------------------------------
(***************************************************************************)
(* labella/utils.py: int2name (bijective base-26 "Excel column" names) and *)
(* the hex colour conversions hex2rgb / hex2rgbstr / hex2html (C20).       *)
(* Names are sequences of letters 1..26; colour codes are sequences of     *)
(* character codes.                                                        *)
(***************************************************************************)
EXTENDS Integers, Sequences, TLC

\* ---------------------------------------------------------------- names
RECURSIVE Name(_)
Name(i) == IF i < 26 THEN <<i + 1>> ELSE Append(Name(i \div 26 - 1), (i % 26) + 1)
\* shortlex successor: increment the last letter, carrying Z -> A leftwards; all Z's grow by one letter
RECURSIVE Succ(_)
Succ(n) == IF n = <<>> THEN <<1>>
           ELSE IF n[Len(n)] < 26 THEN [n EXCEPT ![Len(n)] = @ + 1]
           ELSE Append(Succ(SubSeq(n, 1, Len(n) - 1)), 1)
\* shortlex order
RECURSIVE LexLt(_, _, _)
LexLt(a, b, i) == IF i > Len(a) THEN FALSE ELSE IF a[i] < b[i] THEN TRUE ELSE IF a[i] > b[i] THEN FALSE ELSE LexLt(a, b, i + 1)
ShortLexLt(a, b) == Len(a) < Len(b) \/ (Len(a) = Len(b) /\ LexLt(a, b, 1))
WellFormed(n) == Len(n) >= 1 /\ \A k \in 1..Len(n) : n[k] \in 1..26

\* ---------------------------------------------------------------- colours
HexVal(c) == IF c >= 48 /\ c <= 57 THEN c - 48               \* '0'..'9'
             ELSE IF c >= 97 /\ c <= 102 THEN c - 87          \* 'a'..'f'
             ELSE IF c >= 65 /\ c <= 70 THEN c - 55           \* 'A'..'F'
             ELSE -1
Strip(code) == IF Len(code) >= 1 /\ code[1] = 35 THEN SubSeq(code, 2, Len(code)) ELSE code     \* '#'
Digits(code) == [k \in 1..Len(Strip(code)) |-> HexVal(Strip(code)[k])]
\* 3-digit codes are expanded by doubling each digit
RGB(code) == LET d == Digits(code) IN
             IF Len(d) = 3 THEN <<17 * d[1], 17 * d[2], 17 * d[3]>>
             ELSE <<16 * d[1] + d[2], 16 * d[3] + d[4], 16 * d[5] + d[6]>>
HexStr == "0123456789ABCDEF"
HexChar(v) == SubSeq(HexStr, v + 1, v + 1)
Byte2(v) == HexChar(v \div 16) \o HexChar(v % 16)
Html(code) == LET c == RGB(code) IN Byte2(c[1]) \o Byte2(c[2]) \o Byte2(c[3])
RgbStr(code) == LET c == RGB(code) IN "rgb(" \o ToString(c[1]) \o ", " \o ToString(c[2]) \o ", " \o ToString(c[3]) \o ")"
ValidCode(code) == Len(Strip(code)) \in {3, 6} /\ \A k \in 1..Len(Strip(code)) : HexVal(Strip(code)[k]) >= 0
=============================================================================
