------------------------------- MODULE Layout -------------------------------
(***************************************************************************)
(* Force.compute() end to end, as the composition of the operational       *)
(* models: Distributor.tla (which label goes to which layer) and, layer    *)
(* by layer starting at the axis, Chain.tla (the least-squares optimum of  *)
(* the layer's chain between the walls) followed by the rounding of        *)
(* removeOverlap (positions are rounded to whole units).                   *)
(*                                                                         *)
(*   items of layer j   the labels placed in layer j and one stub (width   *)
(*                      stubWidth) for every label placed deeper           *)
(*   target of an item  layer 1: the datum's position; layer j > 1: the    *)
(*                      ROUNDED position of the item's own stub in layer   *)
(*                      j - 1 (node.parent.currentPos)                     *)
(*   list order         what Distributor.distribute() hands over: overlap  *)
(*                      - the layer's labels as the punting loop left them *)
(*                      followed by the stubs of deeper layers, deepest    *)
(*                      layer first; simple - labels and stubs interleaved *)
(*                      in the order of the sorted input                   *)
(*   chain order        the list sorted by target, STABLE (ties keep the   *)
(*                      list order)                                        *)
(*   rounding           Python's round(): nearest whole unit, exact halves *)
(*                      to the even neighbour                              *)
(*                      to the even neighbour; an item pushed against a    *)
(*                      wall sits a hair beyond it (the wall is a variable *)
(*                      of weight 1e10 that gives way a little), so its    *)
(*                      exact half goes towards the wall                   *)
(*   ambiguity          an exact half in a layer that does not fit between *)
(*                      the walls (both walls in one block): positions     *)
(*                      from that layer on are not predicted               *)
(*                                                                         *)
(* Predict returns, per layer, the items with their predicted positions    *)
(* and an ambiguity flag; LayoutDrift.tla compares it with observed        *)
(* layouts.  Coordinates: integers in the record's unit U (U per whole     *)
(* unit of the code).                                                      *)
(***************************************************************************)
EXTENDS Distributor, Chain

RECURSIVE InsT(_, _)
InsT(acc, x) == IF acc = <<>> THEN <<x>>
                ELSE IF acc[Len(acc)].t <= x.t THEN Append(acc, x)
                ELSE Append(InsT(SubSeq(acc, 1, Len(acc) - 1), x), acc[Len(acc)])
RECURSIVE SortT(_, _, _)
SortT(s, i, acc) == IF i > Len(s) THEN acc ELSE SortT(s, i + 1, TLCEval(InsT(acc, s[i])))

FloorDivL(a, b) == IF a >= 0 THEN a \div b ELSE -((-a + b - 1) \div b)
\* x2 = <<num, den>> is the DOUBLED position in U-units: the position in whole units is num / (2 * den * U)
RoundAmbiguous(x2, U) == LET R == 2 * x2[2] * U IN 2 * (x2[1] - FloorDivL(x2[1], R) * R) = R
\* Python's round(): to the nearest whole unit, an exact half to the EVEN neighbour
RoundUnits(x2, U) == LET R == 2 * x2[2] * U
                         q == FloorDivL(x2[1], R)
                     IN IF 2 * (x2[1] - q * R) > R THEN (q + 1) * U
                        ELSE IF 2 * (x2[1] - q * R) < R THEN q * U
                        ELSE IF q % 2 = 0 THEN q * U ELSE (q + 1) * U

\* OD: options of the distributor [alg, hasLW, lw, densN, densD, ns, sw]; OC: options of the chain [ns, hasMin, minPos, hasMax, maxPos]
Predict(labels, OD, OC, U) ==
    LET L0  == TLCEval(Distribute(labels, OD))
        L   == TLCEval(SelectSeq(L0, LAMBDA ly : Len(ly) > 0))
        NL  == Len(L)
        lay == TLCEval([id \in IdsOf(labels) |-> CHOOSE k \in 1..NL : id \in IdsOf(L[k])])
        RECURSIVE Go(_, _, _)
        Go(j, tgt, acc) ==
            IF j > NL THEN acc
            ELSE LET RECURSIVE Stubs(_)                                   \* stubs: deepest layer first, each in list order
                     Stubs(i) == IF i <= j THEN <<>> ELSE L[i] \o Stubs(i - 1)
                     here  == IF OD.alg = "simple" /\ NL > 1
                              THEN SelectSeq(SortByIdeal(labels, 1, <<>>), LAMBDA x : lay[x.id] >= j)
                              ELSE L[j] \o Stubs(NL)
                     items == [i \in 1..Len(here) |->
                                 [k |-> IF lay[here[i].id] = j THEN "L" ELSE "S", id |-> here[i].id, t |-> tgt[here[i].id],
                                  w |-> IF lay[here[i].id] = j THEN here[i].w ELSE OD.sw, p |-> 0]]
                     Ly    == TLCEval(SortT(items, 1, <<>>))
                     x     == TLCEval(XStar2(Ly, OC, U))
                     o2    == TLCEval(Off2(Ly, OC.ns, U))
                     y2    == [i \in 1..Len(Ly) |-> 2 * Ly[i].t - o2[i]]
                     z0    == TLCEval(Expand(Pava(y2), 1, <<>>))                    \* optimum without walls
                     lo    == <<A2(Ly, OC), 1>>
                     hi    == <<B2(Ly, OC, o2), 1>>
                     squeezed == OC.hasMin = 1 /\ OC.hasMax = 1 /\ lo[1] > hi[1]    \* does not fit: both walls in one block
                     \* an item PUSHED against a wall shares the wall's block: the wall (weight 1e10) gives way by a hair,
                     \* so an exact half comes out just beyond it - towards the wall
                     pushedLo(a) == OC.hasMin = 1 /\ ~squeezed /\ RLt2(z0[a], lo)
                     pushedHi(a) == OC.hasMax = 1 /\ ~squeezed /\ RLt2(hi, (IF OC.hasMin = 1 THEN RMax(z0[a], lo) ELSE z0[a]))
                     amb   == squeezed /\ \E a \in 1..Len(Ly) : RoundAmbiguous(x[a], U)
                     rnd(a) == IF ~RoundAmbiguous(x[a], U) THEN RoundUnits(x[a], U)
                               ELSE IF pushedLo(a) THEN FloorDivL(x[a][1], 2 * x[a][2] * U) * U
                               ELSE IF pushedHi(a) THEN (FloorDivL(x[a][1], 2 * x[a][2] * U) + 1) * U
                               ELSE RoundUnits(x[a], U)
                     out   == TLCEval([i \in 1..Len(Ly) |-> [Ly[i] EXCEPT !.p = rnd(i)]])
                     pos   == TLCEval([id \in {out[i].id : i \in 1..Len(out)} |-> (CHOOSE i \in 1..Len(out) : out[i].id = id)])
                 IN Go(j + 1, TLCEval([id \in DOMAIN pos |-> out[pos[id]].p]), Append(acc, [amb |-> amb, items |-> out]))
    IN Go(1, TLCEval([id \in IdsOf(labels) |-> labels[CHOOSE i \in 1..Len(labels) : labels[i].id = id].ideal]), <<>>)
=============================================================================
