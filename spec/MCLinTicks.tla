----------------------------- MODULE MCLinTicks -----------------------------
(* Exhaustive check of the tick / nice laws (C13, C14-linear) on integer      *)
(* domains: every domain lo < hi on a grid x every requested count m.         *)
EXTENDS LinTicks
CONSTANTS NegLo, Hi, Ms, Unit      \* end points range over -NegLo..Hi (in Unit milli-units), m over Ms
AllMs == 1..100
VARIABLES lo, hi, m
Init == /\ lo \in {Unit * x : x \in (-NegLo)..Hi} /\ hi \in {Unit * x : x \in (-NegLo)..Hi} /\ lo < hi /\ m \in Ms
Next == UNCHANGED <<lo, hi, m>>
Spec == Init /\ [][Next]_<<lo, hi, m>>

S == Steps(hi - lo, m)
StepExists == S # {}
StepIsRound == \A s \in S : StepForm(s)
TicksInside == \A s \in S : InDomain(lo, hi, s, TickNs(lo, hi, s)) /\ Complete(lo, hi, s, TickNs(lo, hi, s))
TickCount == \A s \in S : CountBounds(m, Cardinality(TickNs(lo, hi, s)))
NiceWidens == \A d \in Nice(lo, hi, m) : NeverInward(lo, hi, d)
NiceTwoSteps == \A d \in Nice(lo, hi, m) : LessThanTwoSteps(lo, hi, d, m)
NiceRound == \A d \in Nice(lo, hi, m) : OnTenthOfStep(d, m)
\* negative self-test: after ONE pass the end points need not be within two steps of the result's ticks / round
NiceOnePassRound == \A d \in NiceOnce(lo, hi, m) : OnTenthOfStep(d, m) /\ LessThanTwoSteps(lo, hi, d, m) /\
                       (\A s \in Steps(d[2] - d[1], m) : d[1] % s = 0 /\ d[2] % s = 0)
=============================================================================
