------------------------------ MODULE TexTrace ------------------------------
(* Binding for C19: labella.tex.uni2tex(text) observed on annotated inputs.   *)
EXTENDS Tex, Json, IOUtils
Trace == ndJsonDeserialize(IOEnv.TRACE_FILE)
VARIABLE r
TInit == r \in 1..Len(Trace)
TNext == UNCHANGED r
TSpec == TInit /\ [][TNext]_r
T == Trace[r]
C19_Defined == T.err = ""
C19_AsciiUntouched == (T.err = "" /\ IsAscii(T.in)) => T.out = Cps(T.in)
C19_OnlyAccentsReplaced == T.err = "" => Explained(T.in, T.out)
C19_RoundTrip == T.err = "" => RoundTrips(T.in, T.out, T.tab)
=============================================================================
