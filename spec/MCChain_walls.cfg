SPECIFICATION SpecWalls
CONSTANTS
  NMax = 3
  Targets = {0, 4, 6, 8}
  Widths = {4, 14}
  Kinds = {"L", "S"}
  NS = {0, 4, 12}
  UU = 4
  MinOpts <- MinOptsW
  MaxOpts <- MaxOptsW
  StopRule = "no-change"
  OneMerge = TRUE
  Det = TRUE
INVARIANT OracleKKT
INVARIANT RoundedSep
INVARIANT RoundedOrdered
INVARIANT RoundedInside
INVARIANT NotMoved
CHECK_DEADLOCK FALSE
