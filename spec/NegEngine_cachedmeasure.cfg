SPECIFICATION Spec
CONSTANTS
  Sets = {"A", "B"}
  Perms = {"PA"}
  Deltas = {"d1", "d2", "d3", "d4", "d5", "d6", "d7", "d8", "d9"}
  Mech = {"stubs", "pos", "order", "ovl"}
  MaxLen = 4
INVARIANT Pure
INVARIANT ReuseEqualsFresh
CHECK_DEADLOCK FALSE
