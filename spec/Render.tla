------------------------------- MODULE Render -------------------------------
(***************************************************************************)
(* Operational model of labella/renderer.py (Renderer.layout,              *)
(* getWayPoints, generatePath with its v/h curves) and Timeline.nodePos:   *)
(* from a computed layout (every node's layer, the positions of the hops   *)
(* on its path from the root, its root's ideal position, its extents) and  *)
(* the renderer options (direction, layer gap, layer thickness) it         *)
(* predicts the printed origin of every label box and EVERY point of every *)
(* link path - end points and Bezier control points - in document          *)
(* coordinates x 1e5.  DrawTrace.tla states what the properties C07-C09    *)
(* demand of these; this module says what the code does, and observed      *)
(* drawings are compared with it as specification drift (never a verdict). *)
(***************************************************************************)
EXTENDS Integers, Sequences, TLC, Json, IOUtils

Trace == ndJsonDeserialize(IOEnv.TRACE_FILE)
VARIABLE r
TInit == r \in 1..Len(Trace)
TNext == UNCHANGED r
TSpec == TInit /\ [][TNext]_r
T == Trace[r]
U5 == 100000
Backends == {T.svg, T.tikz}
Abs(x) == IF x < 0 THEN -x ELSE x

Sgn(B) == IF B.dir \in {"down", "right"} THEN 1 ELSE -1
Horiz(B) == B.dir \in {"up", "down"}
Pitch(B) == B.gap5 + B.nodeH5
LayerPos(B, l) == l * Pitch(B) + B.gap5
Cur(nd) == nd.chain5[Len(nd.chain5)]
\* Renderer.layout: x, y, dx, dy of a node
Placed(B, nd) ==
    LET pos == LayerPos(B, nd.layer) IN
    CASE B.dir = "left"  -> [x |-> -pos - B.nodeH5, y |-> Cur(nd), dx |-> B.nodeH5, dy |-> nd.width5]
      [] B.dir = "right" -> [x |-> pos, y |-> Cur(nd), dx |-> B.nodeH5, dy |-> nd.width5]
      [] B.dir = "up"    -> [x |-> Cur(nd), y |-> -pos - B.nodeH5, dx |-> nd.width5, dy |-> B.nodeH5]
      [] OTHER           -> [x |-> Cur(nd), y |-> pos, dx |-> nd.width5, dy |-> B.nodeH5]
\* Timeline.nodePos, doubled (dx/2 and dy/2 need not be whole units of 1e-5)
Origin2(B, nd) ==
    LET p == Placed(B, nd) IN
    CASE B.dir = "right" -> <<2 * p.x, 2 * p.y - p.dy>>
      [] B.dir = "left"  -> <<2 * (p.x - nd.w5 + p.dx), 2 * p.y - p.dy>>
      [] OTHER           -> <<2 * p.x - p.dx, 2 * p.y>>
\* "%i" of a doubled value: truncation toward zero to whole drawing units, result x 1e5
TruncI2(v2) == IF v2 >= 0 THEN U5 * (v2 \div (2 * U5)) ELSE -(U5 * ((-v2) \div (2 * U5)))
PrintedOrigin(B, nd) == <<TruncI2(Origin2(B, nd)[1]), TruncI2(Origin2(B, nd)[2])>>

\* getWayPoints: for level k (0-based) the two points of hop k
WayIn(B, nd, k)  == LET a == Sgn(B) * (Pitch(B) * (k + 1) - B.nodeH5) c == nd.chain5[k + 1]
                    IN IF Horiz(B) THEN <<c, a>> ELSE <<a, c>>
WayOut(B, nd, k) == LET a == Sgn(B) * (Pitch(B) * (k + 1)) c == nd.chain5[k + 1]
                    IN IF Horiz(B) THEN <<c, a>> ELSE <<a, c>>
Start(B, nd) == IF Horiz(B) THEN <<nd.ideal5, 0>> ELSE <<0, nd.ideal5>>
\* generatePath: M start, then per level a curve (control points at the mid across-coordinate) and, except after the last, a line
\* doubled control points: v-curve  (p1.x, midY) (p2.x, midY);  h-curve  (midX, p1.y) (midX, p2.y)
Curve2(B, p1, p2) == IF Horiz(B) THEN <<2 * p1[1], p1[2] + p2[2], 2 * p2[1], p1[2] + p2[2], 2 * p2[1], 2 * p2[2]>>
                     ELSE <<p1[1] + p2[1], 2 * p1[2], p1[1] + p2[1], 2 * p2[2], 2 * p2[1], 2 * p2[2]>>
PrevOf(B, nd, k) == IF k = 0 THEN Start(B, nd) ELSE WayOut(B, nd, k - 1)
\* segment s of the path (1 = M, 2 + 2k = curve of level k, 3 + 2k = line of level k), doubled
Segment2(B, nd, s) == IF s = 1 THEN <<2 * Start(B, nd)[1], 2 * Start(B, nd)[2]>>
                      ELSE IF s % 2 = 0 THEN Curve2(B, PrevOf(B, nd, (s - 2) \div 2), WayIn(B, nd, (s - 2) \div 2))
                      ELSE LET p == WayOut(B, nd, (s - 3) \div 2) IN <<2 * p[1], 2 * p[2]>>
NumSegments(nd) == 2 * nd.layer + 2

Observed(B) == Len(B.boxes) = Len(B.nodes) /\ Len(B.links) = Len(B.nodes)
\* (one unit of 1e-5 for the independent roundings of printed values; half units of doubled control points)
Near2(obs, pred2) == Abs(2 * obs - pred2) <= 3
Drift_BoxOrigin == \A B \in Backends : Observed(B) => \A i \in 1..Len(B.nodes) :
    B.boxes[i].x5 = PrintedOrigin(B, B.nodes[i])[1] /\ B.boxes[i].y5 = PrintedOrigin(B, B.nodes[i])[2]
Drift_BoxExtent == \A B \in Backends : Observed(B) => \A i \in 1..Len(B.nodes) :
    B.boxes[i].w5 = B.nodes[i].w5 /\ B.boxes[i].h5 = B.nodes[i].h5
Drift_LinkPoints == \A B \in Backends : Observed(B) => \A i \in 1..Len(B.nodes) :
    LET l == B.links[i] nd == B.nodes[i] IN
    /\ Len(l.pts5) = NumSegments(nd)
    /\ Len(nd.chain5) = nd.layer + 1
    /\ \A s \in 1..NumSegments(nd) : LET m == Segment2(B, nd, s) IN
          /\ Len(l.pts5[s]) = Len(m)
          /\ \A j \in 1..Len(m) : Near2(l.pts5[s][j], m[j])
\* layer thickness handed to the renderer: the largest across-axis extent of a label
Drift_LayerThickness == \A B \in Backends : \A i \in 1..Len(B.nodes) :
    (IF Horiz(B) THEN B.nodes[i].h5 ELSE B.nodes[i].w5) <= B.nodeH5
=============================================================================
