SPECIFICATION TSpec
INVARIANT C17_Defined
INVARIANT C17_Floor
INVARIANT C17_Ceil
INVARIANT C17_Round
INVARIANT C17_Offset
INVARIANT C17_Range
INVARIANT C17_WeekRangeSpacing
INVARIANT CalendarAgrees
INVARIANT OffsetInputIsBoundary
CHECK_DEADLOCK FALSE
