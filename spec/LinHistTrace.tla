---------------------------- MODULE LinHistTrace ----------------------------
(* Binding for C12 (histories).  One ndjson record = one call history played *)
(* on real LinearScale objects (driver d_linscale.py, mode "hist"); after     *)
(* every call the driver logs every scale's observation (reported domain,     *)
(* range, clamp, the images of the two reported domain end points and of a    *)
(* probe, as repr() strings) and whether the end points map EXACTLY onto the  *)
(* reported range.  TLC steps the heap model LinScale.tla along the calls.    *)
EXTENDS LinScale, Json, IOUtils

Trace == ndJsonDeserialize(IOEnv.TRACE_FILE)
VARIABLES tid, l
tvars == <<vars, tid, l>>
Ev == Trace[tid].ev
TInit == tid \in 1..Len(Trace) /\ l = 1 /\ Init
Step == /\ l <= Len(Ev)
        /\ LET e == Ev[l] IN
             \/ (e.a = "D" /\ Domain(e.i, e.x))
             \/ (e.a = "R" /\ Range(e.i, e.x))
             \/ (e.a = "K" /\ Clamp(e.i, e.x = "1"))
             \/ (e.a = "N" /\ Nice(e.i, e.x))
             \/ (e.a = "Y" /\ Copy(e.i))
             \/ (e.a = "E" /\ RangeAgain(e.i, e.x))
             \/ (e.a = "G" /\ DomainAgain(e.i, e.x))
             \/ (e.a = "X" /\ FailedDomain(e.i))
             \/ (e.a = "F" /\ \E t \in 1..NS : ToString(t) = e.x /\ DomainFrom(e.i, t))
        /\ l' = l + 1 /\ UNCHANGED tid
Finished == l > Len(Ev) /\ UNCHANGED tvars
TNext == Step \/ Finished
TSpec == TInit /\ [][TNext]_tvars

Last == Ev[l - 1]
Prev == IF l = 2 THEN Trace[tid].obs0 ELSE Ev[l - 2].obs
\* the driver saw as many scales as the model has
SameShape == l > 1 => Len(Last.obs) = NS
\* every scale maps the end points of the domain it reports exactly to the range it reports
\* every call of the history completes (lists, tuples, ints and floats are all legal arguments)
C12_CallsComplete == l > 1 => Last.err = ""
C12_EndpointsMap == l > 1 => \A s \in 1..Len(Last.obs) : Last.obs[s].e0 = 1 /\ Last.obs[s].e1 = 1
\* invert is the inverse of the CURRENT map: the range end points come back as the reported domain end points
C12_InvertAfterHistory == l > 1 => \A s \in 1..Len(Last.obs) : Last.obs[s].v0 = 1 /\ Last.obs[s].v1 = 1
\* an action on one scale leaves every observation of every other scale unchanged
C12_CopyIndependent == l > 1 => \A s \in 1..Len(Prev) : s # actor => Last.obs[s] = Prev[s]
=============================================================================
