SPECIFICATION Spec
CONSTANTS
  MaxScales = 3
  MaxLen = 4
  RescaleOnSameList = FALSE
  KeepCallersList = FALSE
  ShareListsOnCopy = FALSE
  Doms = {"dA", "dB"}
  Rngs = {"rB"}
  NiceMs = {"10"}
INVARIANT EndpointsMap
PROPERTY CopyIndependent
CHECK_DEADLOCK FALSE
