------------------------------ MODULE DistDrift ------------------------------
(* Conformance of the OPERATIONAL layering model (Distributor.tla) with the    *)
(* layering observed from the real Force.compute() (records of LayoutTrace).   *)
(* A mismatch is specification drift (reported in the evidence), never a       *)
(* verdict: C04 is decided by the structural predicates of LayoutTrace.tla.    *)
EXTENDS Distributor, Json, IOUtils
Trace == ndJsonDeserialize(IOEnv.TRACE_FILE)
VARIABLE r
TInit == r \in 1..Len(Trace)
TNext == UNCHANGED r
TSpec == TInit /\ [][TNext]_r
T == Trace[r]
OO == [alg |-> T.opts.alg, hasLW |-> (IF T.opts.hasMin = 1 /\ T.opts.hasMax = 1 /\ T.opts.maxPos - T.opts.minPos # 0 THEN 1 ELSE 0),
       lw |-> T.opts.maxPos - T.opts.minPos, densN |-> T.opts.densN, densD |-> T.opts.densD, ns |-> T.opts.ns, sw |-> T.opts.stubW]
Labels == [k \in 1..Len(T.labels) |-> [id |-> T.labels[k].id, ideal |-> T.labels[k].ideal, w |-> T.labels[k].w]]
Model == Distribute(Labels, OO)
ObsIds(k) == {T.layers[k][j].id : j \in {j \in 1..Len(T.layers[k]) : T.layers[k][j].k = "L"}}
NonEmptyModel == {k \in 1..Len(Model) : Len(Model[k]) > 0}
Drift_ModelExplainsLayering == (T.fresh = 1 /\ (OO.hasLW = 0 \/ OO.lw > 0)) =>
    /\ Cardinality(NonEmptyModel) = Len(T.layers)
    /\ \A k \in 1..Len(T.layers) : k <= Len(Model) /\ ObsIds(k) = IdsOf(Model[k])
=============================================================================
