SPECIFICATION TSpec
CONSTANTS
  OptionsNoneHandled = TRUE
  DegenerateDomainHandled = TRUE
  DegenerateTickFormatHandled = TRUE
  IntegerMsStep = TRUE
  DayStepByTimedelta = TRUE
INVARIANT C11_Total
INVARIANT C11_DegenerateAtStart
INVARIANT C11_LargeClusterCompletes
INVARIANT WellTyped
CHECK_DEADLOCK FALSE
