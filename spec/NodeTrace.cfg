SPECIFICATION TSpec
CONSTANTS
  MaxNodes = 64
  MaxLen = 200
  Ideals = {}
  Widths = {}
  StubWidths = {}
  Positions = {}
  Disciplined = FALSE
INVARIANT Drift_StepExplained
INVARIANT Drift_SameShape
INVARIANT Drift_NodeObservers
INVARIANT Drift_PairHelpers
CHECK_DEADLOCK FALSE
