------------------------------ MODULE LinTrace ------------------------------
(* Binding for C12 (functional laws), C13 and C14-linear: call/return records *)
(* of labella.scale.LinearScale (driver d_linscale.py).  Floats are projected *)
(* to integers in units u = step / (mant * Q)  (ticks, nice) or carried as    *)
(* signed BigNat values (map records).                                        *)
EXTENDS LinTicks, BigNat, Json, IOUtils

Trace == ndJsonDeserialize(IOEnv.TRACE_FILE)
VARIABLE r
TInit == r \in 1..Len(Trace)
TNext == UNCHANGED r
TSpec == TInit /\ [][TNext]_r
T == Trace[r]
IsTicks == T.kind = "ticks"
IsNice == T.kind = "nice"
IsMap == T.kind = "map"

StepQ == T.mant * T.Q                              \* the step in record units
Tol == Max2(1, StepQ \div 1000)                     \* a thousandth of the step (at least the rounding unit)
Cnt == Len(T.tq)

\* ------------------------------------------------------------------ C13
C13_Defined == IsTicks => T.err = ""
C13_StepForm == (IsTicks /\ Cnt >= 2) => T.mant \in {1, 2, 5}
C13_Multiples == IsTicks =>
    /\ \A i \in 1..Cnt : CAbsL(T.tq[i] - T.n[i] * StepQ) <= Tol
    /\ \A i \in 1..(Cnt - 1) : T.n[i + 1] = T.n[i] + 1
C13_InDomain == IsTicks => \A i \in 1..Cnt : T.lo - Tol <= T.tq[i] /\ T.tq[i] <= T.hi + Tol
\* ... and beyond the ends by no more than float arithmetic accounts for (xlo, xhi: the excess of the outermost ticks in
\* thousandths of four roundings per tick at the magnitude of the end points)
C13_InDomainUpToFloatNoise == IsTicks => T.xlo <= 1000 /\ T.xhi <= 1000
C13_Complete == (IsTicks /\ Cnt >= 1) =>
    /\ (T.n[1] - 1) * StepQ < T.lo + Tol
    /\ (T.n[Cnt] + 1) * StepQ > T.hi - Tol
C13_CountBounds == IsTicks => CountBounds(T.m, Cnt)
C13_LabelsDistinct == IsTicks => \A i, j \in 1..Cnt : i # j => T.lab[i] # T.lab[j]
\* (lok = 0: the label is not the text of a number at all)
C13_LabelsReadBack == IsTicks => \A i \in 1..Cnt : T.lok[i] = 1 /\ CAbsL(T.lq[i] - T.tq[i]) <= Tol

\* conformance of the operational tick model (LinTicks.Steps / TickNs) with the observed ticks: drift only
Drift_LinModelExplainsTicks == (IsTicks /\ T.err = "" /\ T.hi - T.lo >= T.m /\ T.hi - T.lo < 60000000 /\ Cnt >= 2) =>
    \E s \in Steps(T.hi - T.lo, T.m) :
        /\ s = StepQ
        /\ \A i \in 1..Cnt : T.n[i] \in (CeilDiv(T.lo - Tol, s))..(FloorDiv(T.hi + Tol, s))
        /\ Cnt >= FloorDiv(T.hi - Tol, s) - CeilDiv(T.lo + Tol, s) + 1
\* ------------------------------------------------------------------ C14 (linear)
C14_NeverInward == IsNice => T.nlo <= T.lo + Tol /\ T.nhi >= T.hi - Tol
\* ... and not inward by more than float arithmetic accounts for either (xin: the inward movement of an end in thousandths of
\* four roundings at the magnitude of the end points; the units above cannot see less than a thousandth of a step)
C14_NeverInwardUpToFloatNoise == IsNice => T.xin <= 1000
C14_KeepsOrientation == IsNice => T.rev_in = T.rev_out
C14_LessThanTwoSteps == IsNice => T.lo - T.nlo < 2 * StepQ + Tol /\ T.nhi - T.hi < 2 * StepQ + Tol
NearMultiple(x, s, tol) == LET mm == ((x % s) + s) % s IN mm <= tol \/ s - mm <= tol
\* known float artefact (finding F-14L): the first floor/ceil pass lands on a multiple k*s1 of the first-pass step s1
\* that is not exactly representable; the second pass then sees (k*s1)/s1 = k -+ 1e-16 and moves the end one more
\* whole step s1 outward, off the grid of the resulting (coarser) step.  Every other deviation is still a violation.
DoubleWidenLo == \E s1 \in Steps(T.hi - T.lo, T.m) : CAbsL(T.nlo - (FloorDiv(T.lo, s1) * s1 - s1)) <= Tol
DoubleWidenHi == \E s1 \in Steps(T.hi - T.lo, T.m) : CAbsL(T.nhi - (CeilDiv(T.hi, s1) * s1 + s1)) <= Tol
C14_OnTenthOfStepExceptDoubleWiden == IsNice =>
    /\ NearMultiple(10 * T.nlo, StepQ, 10 * Tol) \/ DoubleWidenLo
    /\ NearMultiple(10 * T.nhi, StepQ, 10 * Tol) \/ DoubleWidenHi
C14_OnTenthOfStep == IsNice => NearMultiple(10 * T.nlo, StepQ, 10 * Tol) /\ NearMultiple(10 * T.nhi, StepQ, 10 * Tol)

\* ------------------------------------------------------------------ C12 (functional laws)
\* map record: domain mantissas a, b and query x (integers, common decimal exponent), range mantissas r0, r1;
\* observed values as signed BigNat in units of 10^-12 of the range / domain decade
SB(n) == SBig(n)
P12 == <<1, <<0, 0, 0, 1>>>>                        \* 10^12
\* exact: y = (r0*(b-x) + r1*(x-a)) / (b-a)
YNum == T.r0 * (T.b - T.x) + T.r1 * (T.x - T.a)
YDen == T.b - T.a
\* |obs*den - num*10^12| <= tol*|den|   with  tol = 1000 * factor  (1e-9 of the range decade, times extrapolation)
Close(obs, num, den, tol) == SLe(SAbs(SSub(SMul(obs, SB(den)), SMul(SB(num), P12))), SMul(SB(tol), SAbs(SB(den))))
Factor == 1 + (CAbsL(T.x - T.a) + CAbsL(T.x - T.b)) \div CAbsL(T.b - T.a)
RSpanM == Max2(CAbsL(T.r0), CAbsL(T.r1)) + CAbsL(T.r1 - T.r0)
C12_EndpointsExact == (T.kind \in {"map", "mapf"}) => T.at_a_exact = 1 /\ T.at_b_exact = 1
C12_Affine == (IsMap /\ T.clamp = 0) => Close(T.y, YNum, YDen, 1000 * Factor * Max2(1, RSpanM))
\* clamp: inside the range, equal to the unclamped value inside the domain
InsideDom == (T.a <= T.x /\ T.x <= T.b) \/ (T.b <= T.x /\ T.x <= T.a)
YClampNum == IF InsideDom THEN YNum
             ELSE IF (T.x - T.a) * (T.b - T.a) < 0 THEN T.r0 * YDen ELSE T.r1 * YDen
C12_ClampInside == (IsMap /\ T.clamp = 1) => Close(T.y, YClampNum, YDen, 1000 * Max2(1, RSpanM))
\* strictly monotone: the second query x2 > x (mantissas) maps strictly farther in the direction of the range
DirSign == (IF T.b > T.a THEN 1 ELSE -1) * (IF T.r1 > T.r0 THEN 1 ELSE IF T.r1 < T.r0 THEN -1 ELSE 0)
C12_Monotone == (IsMap /\ T.clamp = 0 /\ T.x2 > T.x) => SCmp(T.y2, T.y) = DirSign
\* invert: invert(scale(x)) = x  (units 10^-12 of the domain decade), scale(invert(y0)) = y0
C12_InverseBothWays == (IsMap /\ T.clamp = 0 /\ T.r0 # T.r1) =>
    /\ SLe(SAbs(SSub(T.inv, SMul(SB(T.x), P12))), SB(1000 * Factor * Max2(1, CAbsL(T.a) + CAbsL(T.b))))
    /\ SLe(SAbs(SSub(T.fwdinv, SMul(SB(T.y0), P12))), SB(1000 * Max2(1, RSpanM) * (1 + T.y0f)))
=============================================================================
