INIT InitOne
NEXT Next
CONSTANTS
  N = 6
  Des = {0}
  Gaps = {0}
  Weights = {1}
  Scales = {1}
  AllowCycles = FALSE
  StopRule = "cost-stationary"
  OneMerge = TRUE
  Det = FALSE
INVARIANT Feasible
CHECK_DEADLOCK FALSE
