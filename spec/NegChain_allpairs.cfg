SPECIFICATION SpecWalls
CONSTANTS
  NMax = 3
  Targets = {0, 4}
  Widths = {2, 4}
  Kinds = {"L", "S"}
  NS = {0}
  UU = 4
  MinOpts <- NoOpt
  MaxOpts <- NoOpt
  StopRule = "no-change"
  OneMerge = TRUE
  Det = TRUE
INVARIANT RoundedSepAllPairs
CHECK_DEADLOCK FALSE
