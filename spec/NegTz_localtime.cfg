SPECIFICATION Spec
CONSTANTS
  LocalTimeConversions = TRUE
  LMin = 0
  LMax = 4320
INVARIANT ZoneIndependent
INVARIANT NaiveSemantics
CHECK_DEADLOCK FALSE
