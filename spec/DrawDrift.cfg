SPECIFICATION TSpec
INVARIANT Drift_TimeFormatModel
CHECK_DEADLOCK FALSE
