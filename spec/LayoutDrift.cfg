SPECIFICATION TSpec
INVARIANT Drift_LayoutPredicted
INVARIANT Info_FullyCompared
CHECK_DEADLOCK FALSE
