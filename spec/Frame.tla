------------------------------- MODULE Frame -------------------------------
(***************************************************************************)
(* The document frame and the tick decorations of an exported timeline, as *)
(* a function of the options alone (beyond the listed properties: C09      *)
(* compares the two back-ends only INSIDE the main layer and excludes the  *)
(* margins).  Operational facts of labella/timeline.py:                    *)
(*   SVG   <svg width height> = initialWidth, initialHeight;               *)
(*         outer group translate(margin.left, margin.top);                 *)
(*         main layer translate: left -> (innerWidth, 0), up -> (0,        *)
(*         innerHeight), right/down -> (0, 0);                             *)
(*         tick mark and tick text on the side of the axis AWAY from the   *)
(*         labels: down (0,-6)/(0,-9) middle, up (0,6)/(0,9) middle,       *)
(*         right (-6,0)/(-9,0) end, left (6,0)/(9,0) start.                *)
(*   TikZ  standalone border = left bottom right top margins;              *)
(*         margin scope shifted by (margin.left, margin.RIGHT) - the       *)
(*         documented limitation of the TikZ margin handling, modelled as  *)
(*         it is (TikzMarginShift);                                        *)
(*         main layer shifted like the SVG main layer;                     *)
(*         tick marks to -6pt/6pt away from the labels, anchors north /    *)
(*         south / west / east for up / down / left / right.               *)
(* Every record is one pair of exports of the same data and options        *)
(* (driver d_timeline.py); a mismatch is specification drift, never a      *)
(* verdict.                                                                *)
(***************************************************************************)
EXTENDS Integers, Sequences, TLC, Json, IOUtils

Trace == ndJsonDeserialize(IOEnv.TRACE_FILE)
VARIABLE r
TInit == r \in 1..Len(Trace)
TNext == UNCHANGED r
TSpec == TInit /\ [][TNext]_r
T == Trace[r]
U5 == 100000
O == T.svg.opt
Dir == T.svg.dir
InnerW == O.iw - O.ml - O.mr
InnerH == O.ih - O.mt - O.mb
\* the axis runs along x for up/down, along y for left/right; its length is the inner extent in that direction
AxisLength == IF Dir \in {"up", "down"} THEN InnerW ELSE InnerH
MainShift == CASE Dir = "left" -> <<InnerW, 0>> [] Dir = "up" -> <<0, InnerH>> [] OTHER -> <<0, 0>>
TikzMarginShift == <<O.ml, O.mr>>
SvgTick == CASE Dir = "down"  -> [x2 |-> 0, y2 |-> -6, tx |-> 0, ty |-> -9, anchor |-> "middle"]
             [] Dir = "up"    -> [x2 |-> 0, y2 |-> 6, tx |-> 0, ty |-> 9, anchor |-> "middle"]
             [] Dir = "right" -> [x2 |-> -6, y2 |-> 0, tx |-> -9, ty |-> 0, anchor |-> "end"]
             [] OTHER         -> [x2 |-> 6, y2 |-> 0, tx |-> 9, ty |-> 0, anchor |-> "start"]
TikzTick == CASE Dir = "up"    -> [to |-> "0, -6pt", anchor |-> "north"]
              [] Dir = "down"  -> [to |-> "0, 6pt", anchor |-> "south"]
              [] Dir = "left"  -> [to |-> "6pt, 0", anchor |-> "west"]
              [] OTHER         -> [to |-> "-6pt, 0", anchor |-> "east"]

Observed == T.svg.frame.ok = 1 /\ T.tikz.frame.ok = 1
Drift_FrameObserved == Observed
Drift_AxisLength == T.svg.L5 = AxisLength * U5
Drift_SvgSize == Observed => T.svg.frame.w5 = O.iw * U5 /\ T.svg.frame.h5 = O.ih * U5
Drift_SvgOuterShift == Observed => T.svg.frame.outer = <<O.ml * U5, O.mt * U5>>
Drift_SvgMainShift == Observed => T.svg.frame.main = <<MainShift[1] * U5, MainShift[2] * U5>>
Drift_TikzBorder == Observed => T.tikz.frame.border = <<O.ml * U5, O.mb * U5, O.mr * U5, O.mt * U5>>
Drift_TikzOuterShift == Observed => T.tikz.frame.outer = <<TikzMarginShift[1] * U5, TikzMarginShift[2] * U5>>
Drift_TikzMainShift == Observed => T.tikz.frame.main = <<MainShift[1] * U5, MainShift[2] * U5>>
\* the two back-ends place the main layer alike
Drift_SameMainShift == Observed => T.svg.frame.main = T.tikz.frame.main
Drift_SvgTickMarks == (Observed /\ T.svg.frame.nticks > 0) =>
    /\ T.svg.frame.uniform = 1
    /\ T.svg.frame.tick.x2 = SvgTick.x2 * U5 /\ T.svg.frame.tick.y2 = SvgTick.y2 * U5
    /\ T.svg.frame.tick.tx = SvgTick.tx * U5 /\ T.svg.frame.tick.ty = SvgTick.ty * U5
    /\ T.svg.frame.tick.anchor = SvgTick.anchor
Drift_TikzTickMarks == (Observed /\ T.tikz.frame.nticks > 0) =>
    /\ T.tikz.frame.uniform = 1
    /\ T.tikz.frame.tick.to = TikzTick.to /\ T.tikz.frame.tick.anchor = TikzTick.anchor
\* dots: radius as configured (SVG r, TikZ minimum size = diameter)
Drift_DotSize == Observed => /\ \A i \in 1..Len(T.svg.dots) : T.svg.dots[i].size5 = 2 * O.dot5
                             /\ \A i \in 1..Len(T.tikz.dots) : T.tikz.dots[i].size5 = 2 * O.dot5
=============================================================================
