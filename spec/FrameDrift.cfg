SPECIFICATION TSpec
INVARIANT Drift_FrameObserved
INVARIANT Drift_AxisLength
INVARIANT Drift_SvgSize
INVARIANT Drift_SvgOuterShift
INVARIANT Drift_SvgMainShift
INVARIANT Drift_TikzBorder
INVARIANT Drift_TikzOuterShift
INVARIANT Drift_TikzMainShift
INVARIANT Drift_SameMainShift
INVARIANT Drift_SvgTickMarks
INVARIANT Drift_TikzTickMarks
INVARIANT Drift_DotSize
CHECK_DEADLOCK FALSE
