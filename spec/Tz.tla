--------------------------------- MODULE Tz ---------------------------------
(***************************************************************************)
(* Why C18 needs zone-free conversions.  Wall-clock instants are minutes   *)
(* L on a naive time line.  A zone is a UTC offset that may change at a    *)
(* transition instant (DST).  The code's arithmetic on "milliseconds since *)
(* the epoch" is modelled for the hour floor, the week step and the        *)
(* elapsed-time map:                                                       *)
(*   LocalTimeConversions = TRUE   ms = mktime(L)  (pinned tree:           *)
(*                                 timestamp()/fromtimestamp())            *)
(*   LocalTimeConversions = FALSE  ms = L - epoch  (naive arithmetic)      *)
(* ZoneIndependent: every result equals the result under UTC.              *)
(***************************************************************************)
EXTENDS Integers, TLC
CONSTANTS LocalTimeConversions, LMin, LMax

Zones == {"UTC", "IST", "EST5EDT", "LordHowe", "Chatham"}
\* minutes east of UTC as a function of the UTC instant u (minutes); one transition at u = TR(zone)
TR(z) == 1440                                     \* the modelled day-2 midnight UTC is a transition instant
Std(z) == CASE z = "UTC" -> 0 [] z = "IST" -> 330 [] z = "EST5EDT" -> -300 [] z = "LordHowe" -> 630 [] OTHER -> 765
Dst(z) == CASE z = "UTC" -> 0 [] z = "IST" -> 330 [] z = "EST5EDT" -> -240 [] z = "LordHowe" -> 660 [] OTHER -> 825
OffAt(z, u) == IF u < TR(z) THEN Std(z) ELSE Dst(z)
\* mktime: the UTC instant whose local reading is L (earlier offset first; in a gap the standard offset is used)
ToEpoch(z, L) == IF L - Std(z) < TR(z) THEN L - Std(z)
                 ELSE IF L - Dst(z) >= TR(z) THEN L - Dst(z) ELSE L - Std(z)
FromEpoch(z, u) == u + OffAt(z, u)
Enc(z, L) == IF LocalTimeConversions THEN ToEpoch(z, L) ELSE L
Dec(z, u) == IF LocalTimeConversions THEN FromEpoch(z, u) ELSE u

FloorTo(x, q) == x - (x % q)
\* d3_time hour floor: milli2dt(floor(dt2milli(date) / 36e5) * 36e5)
HourFloor(z, L) == Dec(z, FloorTo(Enc(z, L), 60))
\* week step: fromtimestamp(timestamp + 7 days)
WeekStep(z, L) == Dec(z, Enc(z, L) + 7 * 1440)
DayStepByEpoch(z, L) == Dec(z, Enc(z, L) + 1440)
\* the time scale maps L proportionally to elapsed time between two domain ends
Elapsed(z, a, b) == Enc(z, b) - Enc(z, a)

VARIABLE L
Init == L \in LMin..LMax
Next == UNCHANGED L
Spec == Init /\ [][Next]_L

ZoneIndependent == \A z \in Zones :
    /\ HourFloor(z, L) = HourFloor("UTC", L)
    /\ DayStepByEpoch(z, L) = DayStepByEpoch("UTC", L)
    /\ Elapsed(z, L, L + 1440) = Elapsed("UTC", L, L + 1440)
NaiveSemantics == HourFloor("UTC", L) = FloorTo(L, 60) /\ DayStepByEpoch("UTC", L) = L + 1440
=============================================================================
