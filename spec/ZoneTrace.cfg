SPECIFICATION TSpec
INVARIANT C18_ZoneIndependent
INVARIANT AllZonesPresent
CHECK_DEADLOCK FALSE
