------------------------------ MODULE TimeTicks ------------------------------
(***************************************************************************)
(* Operational model of labella.scale.TimeScale.tickMethod / ticks / nice  *)
(* (C14 time, C16).  A domain is a pair of instants <<day, ms>> (Calendar),*)
(* spans are BigNat milliseconds.                                          *)
(*                                                                         *)
(*   TickMethod(span, m)  bisect the step table with target = span/m, then *)
(*                        choose between the two neighbouring steps by the *)
(*                        GEOMETRIC mean (Choice = "geometric": the code;  *)
(*                        "arithmetic" is a realistic wrong variant kept   *)
(*                        as a negative self-test): result <<unit, step>>  *)
(*   Ticks(lo, hi, m)     unit.range(lo, hi + 1 ms, step)                  *)
(*   Nice(lo, hi, m)      floor / ceil to the unit, skipping boundaries    *)
(*                        whose unit number is not divisible by the step   *)
(***************************************************************************)
EXTENDS Calendar, BigNat, LinTicks

CONSTANT Choice

\* step table in SECONDS (the code's table is in ms; every entry is a whole number of seconds)
StepSec == <<1, 5, 15, 30, 60, 300, 900, 1800, 3600, 10800, 21600, 43200, 86400, 172800, 604800, 2592000, 7776000, 31536000>>
Method == << <<"second", 1>>, <<"second", 5>>, <<"second", 15>>, <<"second", 30>>, <<"minute", 1>>, <<"minute", 5>>,
             <<"minute", 15>>, <<"minute", 30>>, <<"hour", 1>>, <<"hour", 3>>, <<"hour", 6>>, <<"hour", 12>>,
             <<"day", 1>>, <<"day", 2>>, <<"week", 1>>, <<"month", 1>>, <<"month", 3>>, <<"year", 1>> >>
NSteps == 18
B(n) == BFromInt(n)
StepMs(i) == BMul(B(StepSec[i]), B(1000))
\* span of a domain in milliseconds (BigNat), lo <= hi
SpanMs(lo, hi) == LET d == Diff(hi, lo) IN BAdd(BMul(B(d[1]), BMul(B(86400), B(1000))), B(d[2]))
\* d3_bisect (right): the number of table steps s with  s <= target = span/m   <=>   s*m <= span
RECURSIVE CountLe(_, _, _)
CountLe(span, m, i) == IF i > NSteps THEN NSteps
                       ELSE IF BLe(BMul(StepMs(i), B(m)), span) THEN CountLe(span, m, i + 1) ELSE i - 1
\* target/s[i-1] < s[i]/target   <=>   span^2 < m^2 * s[i-1] * s[i]           (geometric mean)
\* target - s[i-1] < s[i] - target <=>  2*span < m*(s[i-1] + s[i])           (arithmetic mean: the wrong variant)
PreferLower(span, m, i) ==
    IF Choice = "geometric"
    THEN BLt(BMul(span, span), BMul(BMul(B(m), B(m)), BMul(StepMs(i), StepMs(i + 1))))
    ELSE BLt(BMul(B(2), span), BMul(B(m), BAdd(StepMs(i), StepMs(i + 1))))
\* spans of less than one step of the table / more than the whole table use the linear tick step:
\* milliseconds (integer step >= 1 after rounding up) or years.  Small enough to use LinTicks on 32-bit integers.
ToInt(b) == IF Len(b) = 0 THEN 0 ELSE IF Len(b) = 1 THEN b[1] ELSE IF Len(b) = 2 THEN b[1] + 10000 * b[2]
            ELSE b[1] + 10000 * b[2] + 100000000 * b[3]          \* only used when the value is < 2^31
MsSteps(span, m) == {Max2(1, CeilDiv(s, 1000)) : s \in Steps(ToInt(span) * 1000, m)}        \* span in ms (< 10^6)
\* years: span / 31 536 000 000 ms; in milli-years for LinTicks: days * 1000 / 365 (floor, and floor + 1 so that a threshold
\* that the rounding could move admits both outcomes)
YearSteps(days, m) == LET y == (days * 1000) \div 365
                      IN {Max2(1, s \div 1000) : s \in Steps(y, m) \cup Steps(y + 1, m)}

\* the set of admissible <<unit, step>> (ties on a comparison admit both)
TickMethods(lo, hi, m) ==
    LET span == SpanMs(lo, hi)
        i == CountLe(span, m, 1) IN
    IF i = NSteps THEN {<<"year", s>> : s \in YearSteps(Diff(hi, lo)[1], m)}
    ELSE IF i = 0 THEN {<<"ms", s>> : s \in MsSteps(span, m)}
    ELSE IF PreferLower(span, m, i) THEN {Method[i]} ELSE {Method[i + 1]}

\* millisecond "unit": every instant is a boundary; numbering by absolute millisecond
RECURSIVE MsRange(_, _, _, _)
MsRange(cur, hi, step, acc) == IF ~TLt(cur, hi) \/ Len(acc) > 400 THEN acc ELSE MsRange(AddMs(cur, step), hi, step, Append(acc, cur))
MsCeilTo(t, step) == LET r == ((t[2] % step) + step) % step IN IF r = 0 THEN t ELSE AddMs(t, step - r)
\* (the code aligns to multiples of step counted from the epoch; days are 86 400 000 ms = a multiple of every
\*  step in {1, 2, 5, 10, ...} below 10^3 except those not dividing 86 400 000 - ticks are compared as sets only for steps that do)

Ticks(lo, hi, meth) ==
    IF meth[1] = "ms" THEN MsRange(MsCeilTo(lo, meth[2]), AddMs(hi, 1), meth[2], <<>>)
    ELSE Range(meth[1], lo, AddMs(hi, 1), meth[2])

\* ---------------------------------------------------------------- nice (labella.scale.TimeScale.nice with skip handling)
\* epoch milliseconds of an instant modulo a small step (no 1e13-sized integer is ever formed)
EpochMod(t, s) == (((t[1] % s) * (DAYMS % s)) + t[2]) % s
\* floor / ceil to the nearest boundary of the method's unit whose unit number is divisible by the step
RECURSIVE NiceFloorRec(_, _, _, _)
NiceFloorRec(u, k, b, fuel) == IF k <= 1 \/ Number(u, b) % k = 0 \/ fuel = 0 THEN b
                               ELSE NiceFloorRec(u, k, Floor(u, AddMs(b, -1)), fuel - 1)
RECURSIVE NiceCeilRec(_, _, _, _)
NiceCeilRec(u, k, b, fuel) == IF k <= 1 \/ Number(u, b) % k = 0 \/ fuel = 0 THEN b
                              ELSE NiceCeilRec(u, k, Ceil(u, AddMs(b, 1)), fuel - 1)
NiceFloor(me, t) == IF me[1] = "ms" THEN AddMs(t, -EpochMod(t, me[2]))
                    ELSE NiceFloorRec(me[1], me[2], Floor(me[1], t), 400)
NiceCeil(me, t) == IF me[1] = "ms" THEN (LET r == EpochMod(t, me[2]) IN IF r = 0 THEN t ELSE AddMs(t, me[2] - r))
                   ELSE NiceCeilRec(me[1], me[2], Ceil(me[1], t), 400)
\* admissible niced domains <<lo', hi'>> of lo <= hi for count m
NiceDomains(lo, hi, m) == {<<NiceFloor(me, lo), NiceCeil(me, hi)>> : me \in TickMethods(lo, hi, m)}

\* ---------------------------------------------------------------- declarative predicates (as in TimeTrace.tla)
Twice(g) == NormT(2 * g[1], 2 * g[2])
DLe(x, y) == x = y \/ DLt(x, y)
GapsOf(tk) == {Diff(tk[i + 1], tk[i]) : i \in 1..(Len(tk) - 1)}
GapRatioOK(tk) == Len(tk) >= 3 => \A g1, g2 \in GapsOf(tk) : DLe(g1, Twice(g2))
CountOK(tk, m) == 12 * Len(tk) + 12 >= 5 * m /\ 5 * Len(tk) <= 12 * m + 5
InDomainOK(tk, lo, hi) == \A i \in 1..Len(tk) : TLe(lo, tk[i]) /\ TLe(tk[i], hi)
IncreasingOK(tk) == \A i \in 1..(Len(tk) - 1) : TLt(tk[i], tk[i + 1])
=============================================================================
