--------------------------- MODULE TimelinesTrace ---------------------------
(* Binding for C10.  One ndjson record = one history of construct / export    *)
(* calls played in ONE Python process (driver d_timeline.py, mode "hist");    *)
(* every Export logs the SHA-256 of the document and the SHA-256 of the       *)
(* document that the same configuration and back-end produce alone in a       *)
(* fresh subprocess.  TLC steps the model along the calls.                    *)
EXTENDS Timelines, Json, IOUtils
Trace == ndJsonDeserialize(IOEnv.TRACE_FILE)
VARIABLES tid, l, last
tvars == <<vars, tid, l, last>>
Ev == Trace[tid].ev
TInit == tid \in 1..Len(Trace) /\ l = 1 /\ Init /\ last = [i \in Ids |-> ""]
Step == /\ l <= Len(Ev)
        /\ LET e == Ev[l] IN
             \/ (e.a = "K" /\ Construct(e.i, e.c) /\ last' = [last EXCEPT ![e.i] = ""])
             \/ (e.a = "E" /\ Export(e.i) /\ last' = [last EXCEPT ![e.i] = e.sha])
        /\ l' = l + 1 /\ UNCHANGED tid
Finished == l > Len(Ev) /\ UNCHANGED tvars
TNext == Step \/ Finished
TSpec == TInit /\ [][TNext]_tvars
Last == Ev[l - 1]
AtExport == l > 1 /\ Last.a = "E"
C10_Defined == AtExport => Last.err = ""
C10_Isolation == (AtExport /\ Last.err = "") => Last.sha = Last.ref
\* the previous export of the same instance (if any) was the same document
C10_Idempotent == (AtExport /\ Last.err = "" /\ Last.prev # "") => Last.sha = Last.prev
ModelAgrees == AtExport => Last.c = tl[Last.i].cfg
=============================================================================
