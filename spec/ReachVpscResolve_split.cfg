SPECIFICATION SpecR
CONSTANTS
  N = 3
  Des = {0,1,2}
  Gaps = {0,1,2}
  Weights = {1}
  Scales = {1}
  AllowCycles = FALSE
  StopRule = "no-change"
  OneMerge = TRUE
  Det = FALSE
  MaxSolves = 2
PROPERTY Reach_Split
CHECK_DEADLOCK FALSE
