------------------------------ MODULE MCChain ------------------------------
(* Design-level check of the layer model (C01-C03):                          *)
(*  (1) the functional optimum Chain!ZStar carries its own KKT certificate   *)
(*      on every chain of the lattice, with and without walls;               *)
(*  (2) without walls it coincides with the fix-point of the operational     *)
(*      solver model Vpsc.tla run on the same chain (unit weights);          *)
(*  (3) EVERY admissible rounding of the optimum to integer positions keeps  *)
(*      neighbours separated up to the 1 unit the statement allows, keeps    *)
(*      the target order, and stays within 0.5 of the walls when the layer   *)
(*      fits (the "-1" and "0.5" of C01/C03 are derived, not assumed);       *)
(*  (4) an item with room around its target is not moved.                    *)
EXTENDS Vpsc, Chain

CONSTANTS NMax, Targets, Widths, Kinds, NS, UU, MinOpts, MaxOpts

VARIABLES ly, opt
mvars == <<vars, ly, opt>>

ItemSet == [k : Kinds, id : {0}, t : Targets, w : Widths, p : {0}]
SortedSeqs == UNION {{s \in [1..n -> ItemSet] : \A i \in 1..(n - 1) : s[i].t <= s[i + 1].t} : n \in 1..NMax}
OptSet == {[ns |-> n, hasMin |-> m[1], minPos |-> m[2], hasMax |-> x[1], maxPos |-> x[2]] :
             n \in NS, m \in MinOpts, x \in MaxOpts}
NoWalls == [ns |-> 0, hasMin |-> 0, minPos |-> 0, hasMax |-> 0, maxPos |-> 0]

\* solver instance of the chain in doubled units (des = 2t, gap = Gap2), unit weights and scales
ChainInst(s, o) ==
    /\ nv = Len(s)
    /\ des = [i \in 1..Len(s) |-> 2 * s[i].t]
    /\ wt = [i \in 1..Len(s) |-> 1]
    /\ sc = [i \in 1..Len(s) |-> 1]
    /\ cons = [c \in 1..(Len(s) - 1) |-> [l |-> c, r |-> c + 1, g |-> Gap2(s, c, o.ns, UU)]]

InitFree == /\ ly \in SortedSeqs
            /\ \E n \in NS : opt = [NoWalls EXCEPT !.ns = n]
            /\ ChainInst(ly, opt) /\ Control0
InitWalls == /\ ly \in SortedSeqs /\ opt \in OptSet
             /\ ChainInst(ly, opt) /\ Control0 /\ TRUE
Stutter == pc = "done" /\ UNCHANGED mvars
MNext == (Next /\ UNCHANGED <<ly, opt>>) \/ Stutter
SpecFree == InitFree /\ [][MNext]_mvars
\* with walls the solver model is not run (walls are 1e10-weight variables, outside 32 bits):
\* the declarative checks are evaluated on the initial states only
SpecWalls == InitWalls /\ [][UNCHANGED mvars]_mvars

\* (cfg files cannot write tuples)
NoOpt == {<<0, 0>>}
MinOptsW == {<<0, 0>>, <<1, 0>>, <<1, -6>>}
MaxOptsW == {<<0, 0>>, <<1, 16>>, <<1, 32>>, <<1, 48>>}

X2 == XStar2(ly, opt, UU)
OracleKKT == ChainKKT(ly, opt, UU)
\* (2) the operational model ends exactly at the functional optimum
RefinesSolver == pc = "done" => \A i \in 1..Len(ly) :
                    LET p == Pos(active, i) x == X2[i] IN p[1] * x[2] = x[1] * p[2]

\* (3) admissible roundings of a doubled rational x2 = n/d to a position that is a multiple of UU
Roundings(x) == {p \in {UU * m : m \in -40..40} : CAbs(2 * p * x[2] - x[1]) <= UU * x[2]}
RoundedSep == \A i \in 1..(Len(ly) - 1) : \A a \in Roundings(X2[i]), b \in Roundings(X2[i + 1]) :
                 2 * (b - a) >= Gap2(ly, i, opt.ns, UU) - 2 * UU
RoundedOrdered == \A i, j \in 1..Len(ly) : ly[i].t < ly[j].t =>
                    \A a \in Roundings(X2[i]), b \in Roundings(X2[j]) : a <= b
RoundedInside == Fits(ly, opt, UU) => \A i \in 1..Len(ly) : \A a \in Roundings(X2[i]) :
                    /\ opt.hasMin = 1 => 2 * a - ly[i].w >= 2 * opt.minPos - UU
                    /\ opt.hasMax = 1 => 2 * a + ly[i].w <= 2 * opt.maxPos + UU
\* negative self-test: the literal all-pairs reading fails for a stub / narrow label / stub sandwich
RoundedSepAllPairs == \A i, j \in 1..Len(ly) : i < j => \A a \in Roundings(X2[i]), b \in Roundings(X2[j]) :
                 2 * (b - a) >= ly[i].w + ly[j].w + 2 * Spacing(ly[i], ly[j], opt.ns, UU) - 2 * UU
\* (4) enough room => not moved
HasRoom == /\ \A i \in 1..(Len(ly) - 1) : 2 * (ly[i + 1].t - ly[i].t) >= Gap2(ly, i, opt.ns, UU)
           /\ opt.hasMin = 1 => 2 * ly[1].t - ly[1].w >= 2 * opt.minPos
           /\ opt.hasMax = 1 => 2 * ly[Len(ly)].t + ly[Len(ly)].w <= 2 * opt.maxPos
NotMoved == HasRoom => \A i \in 1..Len(ly) : X2[i][1] = 2 * ly[i].t * X2[i][2]
=============================================================================
