SPECIFICATION Spec
CONSTANTS
  OptionsNoneHandled = TRUE
  DegenerateDomainHandled = FALSE
  DegenerateTickFormatHandled = TRUE
  IntegerMsStep = TRUE
  DayStepByTimedelta = TRUE
INVARIANT Total
CHECK_DEADLOCK TRUE
