------------------------------- MODULE Chain -------------------------------
(***************************************************************************)
(* One layer as labella/removeOverlap.py builds it: items sorted by        *)
(* target, a chain of gap constraints between neighbours, optional wall    *)
(* variables for minPos / maxPos.  All quantities are integers in the      *)
(* record's unit U (U = 4 on the layout lattice: quarter units).           *)
(*                                                                         *)
(* An item is a record [k |-> "L"|"S", id, t (target), w (width), p (pos)].*)
(* Options: [ns (label spacing), hasMin, minPos, hasMax, maxPos], and the  *)
(* fixed stub/stub line spacing LS = 2 units.                              *)
(*                                                                         *)
(* Declarative predicates: Separated, Ordered (C01), Fits, Inside (C03).   *)
(* Functional optimum: LayerOptimum = pool-adjacent-violators on the       *)
(* z-coordinates z[i] = x[i] - Off[i], clipped to the walls (C02); its     *)
(* KKT certificate ChainKKT is checked by TLC on every use, and            *)
(* MCChain.cfg checks that it coincides with the fix-point of the          *)
(* operational solver model Vpsc.tla on the same chain.                    *)
(***************************************************************************)
EXTENDS Integers, Sequences, FiniteSets, TLC

CAbs(a) == IF a < 0 THEN -a ELSE a

\* ------------------------------------------------------------ gaps and offsets (doubled units: 2*x)
\* Gap2[i] = 2 * gap between item i and i+1 = w[i] + w[i+1] + 2*spacing
Gap2(Ly, i, ns, U) == Ly[i].w + Ly[i + 1].w + 2 * (IF Ly[i].k = "S" /\ Ly[i + 1].k = "S" THEN 2 * U ELSE ns)
RECURSIVE Off2Rec(_, _, _, _, _)
Off2Rec(Ly, i, acc, ns, U) ==          \* sequence of 2*Off[i], Off[1] = 0
    IF i > Len(Ly) THEN acc
    ELSE Off2Rec(Ly, i + 1, Append(acc, IF i = 1 THEN 0 ELSE acc[i - 1] + Gap2(Ly, i - 1, ns, U)), ns, U)
Off2(Ly, ns, U) == Off2Rec(Ly, 1, <<>>, ns, U)

\* ------------------------------------------------------------ C01
\* spacing between two items: the fixed line spacing (2 units) when both are stubs
Spacing(a, b, ns, U) == IF a.k = "S" /\ b.k = "S" THEN 2 * U ELSE ns
\* all pairs, in the chain order of the layer; "- U" is the 1 unit lost to rounding
\* ("their centres are at least ... apart": a distance, so the predicate does not depend on
\* which of two tied items the solver happened to put first)
SeparatedPair(Ly, i, j, ns, U) ==
    2 * CAbs(Ly[j].p - Ly[i].p) >= Ly[i].w + Ly[j].w + 2 * Spacing(Ly[i], Ly[j], ns, U) - 2 * U
Separated(Ly, ns, U) == \A i, j \in 1..Len(Ly) : i < j => SeparatedPair(Ly, i, j, ns, U)
\* ChainWeaker: the doubled neighbour gaps between positions i < j of the chain add up to less
\* than the pair's own demand (prefix sums o = Off2 are computed once per layer)
SeparatedModuloChain(Ly, ns, U) ==
    LET o == TLCEval(Off2Rec(Ly, 1, <<>>, ns, U))
    IN \A i, j \in 1..Len(Ly) :
         (i < j /\ o[j] - o[i] >= Ly[i].w + Ly[j].w + 2 * Spacing(Ly[i], Ly[j], ns, U))
            => SeparatedPair(Ly, i, j, ns, U)
\* neighbours only (what the chain of constraints guarantees directly)
SeparatedAdj(Ly, ns, U) == \A i \in 1..(Len(Ly) - 1) : SeparatedPair(Ly, i, i + 1, ns, U)
Ordered(Ly) == \A i, j \in 1..Len(Ly) : Ly[i].t < Ly[j].t => Ly[i].p <= Ly[j].p
ChainSorted(Ly) == \A i \in 1..(Len(Ly) - 1) : Ly[i].t <= Ly[i + 1].t

\* ------------------------------------------------------------ C03
\* required extent (doubled): sum of widths and spacings of the layer
Need2(Ly, ns, U) == LET o == Off2(Ly, ns, U) IN o[Len(Ly)] + Ly[1].w + Ly[Len(Ly)].w
Fits(Ly, O, U) == (O.hasMin = 1 /\ O.hasMax = 1) => Need2(Ly, O.ns, U) <= 2 * (O.maxPos - O.minPos)
\* every item entirely inside the bounds, to within 0.5 rounding (+ 1e-3 for the soft walls)
Inside(Ly, O, U) == \A i \in 1..Len(Ly) :
    \* (the 1e-3 allowance for the soft walls is (2*U) \div 1000 units: written without a x1000 factor to stay inside 32 bits)
    /\ O.hasMin = 1 => 2 * Ly[i].p - Ly[i].w >= 2 * O.minPos - U - (2 * U) \div 1000
    /\ O.hasMax = 1 => 2 * Ly[i].p + Ly[i].w <= 2 * O.maxPos + U + (2 * U) \div 1000

\* ------------------------------------------------------------ C02: pool adjacent violators
\* z-coordinates (doubled): y2[i] = 2*t[i] - Off2[i]; blocks are <<sum, count>>
RECURSIVE FixTail(_)
FixTail(bs) == LET n == Len(bs) IN
    IF n >= 2 /\ bs[n - 1][1] * bs[n][2] > bs[n][1] * bs[n - 1][2]
    THEN FixTail(Append(SubSeq(bs, 1, n - 2), <<bs[n - 1][1] + bs[n][1], bs[n - 1][2] + bs[n][2]>>))
    ELSE bs
RECURSIVE PavaRec(_, _, _)
PavaRec(y, i, bs) == IF i > Len(y) THEN bs ELSE PavaRec(y, i + 1, FixTail(Append(bs, <<y[i], 1>>)))
Pava(y) == PavaRec(y, 1, <<>>)
\* expand blocks to one <<num, den>> per item
RECURSIVE Expand(_, _, _)
Expand(bs, b, acc) == IF b > Len(bs) THEN acc
                      ELSE Expand(bs, b + 1, acc \o [j \in 1..bs[b][2] |-> <<bs[b][1], bs[b][2]>>])

RLeq(a, b) == a[1] * b[2] <= b[1] * a[2]
RMax(a, b) == IF RLeq(a, b) THEN b ELSE a
RMin(a, b) == IF RLeq(a, b) THEN a ELSE b

\* wall positions in doubled z-coordinates
A2(Ly, O) == 2 * O.minPos + Ly[1].w
B2(Ly, O, o) == 2 * O.maxPos - Ly[Len(Ly)].w - o[Len(Ly)]

\* doubled optimal z per item as <<num, den>>
ZStar(Ly, O, U) ==
    LET o  == Off2(Ly, O.ns, U)
        y  == [i \in 1..Len(Ly) |-> 2 * Ly[i].t - o[i]]
        z0 == Expand(Pava(y), 1, <<>>)
        lo == <<A2(Ly, O), 1>>
        hi == <<B2(Ly, O, o), 1>>
    IN IF O.hasMin = 1 /\ O.hasMax = 1 /\ lo[1] > hi[1]
       THEN [i \in 1..Len(Ly) |-> <<lo[1] + hi[1], 2>>]                      \* does not fit: centred
       ELSE [i \in 1..Len(Ly) |->
               LET a == IF O.hasMin = 1 THEN RMax(z0[i], lo) ELSE z0[i]
               IN IF O.hasMax = 1 THEN RMin(a, hi) ELSE a]
\* doubled optimal position: x2[i] = z2[i] + Off2[i]
XStar2(Ly, O, U) == LET o == Off2(Ly, O.ns, U) z == ZStar(Ly, O, U)
                    IN [i \in 1..Len(Ly) |-> <<z[i][1] + o[i] * z[i][2], z[i][2]>>]

\* every reported position within 0.5 (+1e-3) of the optimum:  |2p - x2| <= U + 2e-3*U
WithinHalf(Ly, O, U) == LET x == TLCEval(XStar2(Ly, O, U)) IN
    \A i \in 1..Len(Ly) : CAbs(2 * Ly[i].p * x[i][2] - x[i][1]) <= U * x[i][2] + (2 * U * x[i][2]) \div 1000

\* ------------------------------------------------------------ KKT certificate of ZStar itself
\* minimise sum (z[i]-y[i])^2  s.t.  z[i] <= z[i+1],  lo <= z[1],  z[n] <= hi.
\* With S[i] = sum_{j<=i} (y[j] - z[j]) (all scaled by the common factor below) the multipliers are
\* mu[i] = mu0 + 2 S[i];  need mu >= 0 and mu[i] = 0 wherever z[i] < z[i+1] (or z[n] < hi / no hi),
\* mu0 = 0 unless z[1] = lo.  Checked per maximal run of equal z (common denominator inside a run).
REq(a, b) == a[1] * b[2] = b[1] * a[2]
RLt2(a, b) == a[1] * b[2] < b[1] * a[2]
RECURSIVE RunEnd(_, _)
RunEnd(z, i) == IF i < Len(z) /\ REq(z[i], z[i + 1]) THEN RunEnd(z, i + 1) ELSE i
\* prefix sums inside a run a..b with value p/q:  P[i] = sum_{j=a..i} (q*y[j] - p)
RECURSIVE PrefOK(_, _, _, _, _, _, _)
PrefOK(y, p, q, i, b, acc, lowBound) ==      \* all prefix sums >= lowBound; returns <<ok, total>>
    IF i > b THEN <<TRUE, acc>>
    ELSE LET s == acc + q * y[i] - p
         IN IF s < lowBound /\ i < b THEN <<FALSE, s>> ELSE PrefOK(y, p, q, i + 1, b, s, lowBound)
RECURSIVE RunsOK(_, _, _, _, _)
RunsOK(y, z, a, O, lohi) ==
    IF a > Len(z) THEN TRUE
    ELSE LET b     == RunEnd(z, a)
             p     == z[a][1]
             q     == z[a][2]
             atLo  == O.hasMin = 1 /\ a = 1 /\ REq(z[a], lohi[1])
             atHi  == O.hasMax = 1 /\ b = Len(z) /\ REq(z[a], lohi[2])
             tot   == PrefOK(y, p, q, a, b, 0, -1000000000)[2]
             \* run pushed up by the lower wall: total <= 0 and every prefix >= total
             \* run held down by the upper wall: every prefix >= 0 (total >= 0)
             \* free run: every prefix >= 0 and total = 0
             low   == IF atLo /\ tot < 0 THEN tot ELSE 0
             res   == PrefOK(y, p, q, a, b, 0, low)
         IN /\ (atLo /\ atHi) \/ (res[1] /\ ((atLo /\ tot <= 0) \/ (atHi /\ tot >= 0) \/ tot = 0))
            /\ RunsOK(y, z, b + 1, O, lohi)
ChainKKT(Ly, O, U) ==
    LET o  == Off2(Ly, O.ns, U)
        y  == [i \in 1..Len(Ly) |-> 2 * Ly[i].t - o[i]]
        z  == TLCEval(ZStar(Ly, O, U))
        lo == <<A2(Ly, O), 1>>
        hi == <<B2(Ly, O, o), 1>>
        fits == ~(O.hasMin = 1 /\ O.hasMax = 1 /\ lo[1] > hi[1])
    IN fits =>
       /\ \A i \in 1..(Len(z) - 1) : RLeq(z[i], z[i + 1])
       /\ O.hasMin = 1 => RLeq(lo, z[1])
       /\ O.hasMax = 1 => RLeq(z[Len(z)], hi)
       /\ RunsOK(y, z, 1, O, <<lo, hi>>)
=============================================================================
