------------------------------- MODULE Metrics -------------------------------
(***************************************************************************)
(* labella/metrics.py as derived observations of a layout (beyond the      *)
(* listed properties): each metric is a function of the layers             *)
(* (sequences of items [k, id, t, w, p, ideal]) in the record's unit U.    *)
(* Averages are kept as <<numerator, denominator>>.                        *)
(***************************************************************************)
EXTENDS Integers, Sequences, FiniteSets, TLC
MAbs(x) == IF x < 0 THEN -x ELSE x
RECURSIVE SumInts(_, _)
SumInts(s, i) == IF i > Len(s) THEN 0 ELSE s[i] + SumInts(s, i + 1)
\* sum over all items of all layers of the integer sequence V(k) (one value per item of layer k)
RECURSIVE SumL(_, _)
SumL(V, k) == IF k > Len(V) THEN 0 ELSE SumInts(V[k], 1) + SumL(V, k + 1)
IsLabel(it) == it.k = "L"
LabelFlags(L) == [k \in 1..Len(L) |-> [i \in 1..Len(L[k]) |-> IF IsLabel(L[k][i]) THEN 1 ELSE 0]]
NumLabels(L) == SumL(LabelFlags(L), 1)
\* displacement: mean |idealPos - currentPos| over labels
Displacement(L) == <<SumL([k \in 1..Len(L) |-> [i \in 1..Len(L[k]) |-> IF IsLabel(L[k][i]) THEN MAbs(L[k][i].ideal - L[k][i].p) ELSE 0]], 1),
                     NumLabels(L)>>
\* weightedAllocation: sum over layers of layerIndex * #labels ; weightedAllocatedSpace: layerIndex * sum of widths
WA(L, k0) == SumL([k \in 1..Len(L) |-> [i \in 1..Len(L[k]) |-> IF IsLabel(L[k][i]) THEN k - 1 ELSE 0]], 1)
WAS(L, k0) == SumL([k \in 1..Len(L) |-> [i \in 1..Len(L[k]) |-> (k - 1) * L[k][i].w]], 1)
\* overflowSpace (doubled units): part of every item outside [minPos, maxPos]
Over2(it, hasMin, mn, hasMax, mx) ==
    LET l2 == 2 * it.p - it.w  r2 == 2 * it.p + it.w
        a == IF hasMin = 1 THEN (IF r2 <= 2 * mn THEN 2 * it.w ELSE IF l2 < 2 * mn THEN 2 * mn - l2 ELSE 0) ELSE 0
        b == IF hasMax = 1 THEN (IF l2 >= 2 * mx THEN 2 * it.w ELSE IF r2 > 2 * mx THEN r2 - 2 * mx ELSE 0) ELSE 0
    IN a + b
Overflow2(L, hasMin, mn, hasMax, mx) == SumL([k \in 1..Len(L) |-> [i \in 1..Len(L[k]) |-> Over2(L[k][i], hasMin, mn, hasMax, mx)]], 1)
\* overlapCount with buffer buf: pairs of one layer whose edge distance is below buf (doubled units)
Dist2(a, b) == LET lo == IF 2 * a.p - a.w > 2 * b.p - b.w THEN 2 * a.p - a.w ELSE 2 * b.p - b.w
                   hi == IF 2 * a.p + a.w < 2 * b.p + b.w THEN 2 * a.p + a.w ELSE 2 * b.p + b.w
               IN lo - hi
RECURSIVE OC(_, _, _)
OC(L, k, buf2) == IF k > Len(L) THEN 0
                  ELSE Cardinality({<<i, j>> \in (1..Len(L[k])) \X (1..Len(L[k])) : i < j /\ Dist2(L[k][i], L[k][j]) - buf2 < 0}) + OC(L, k + 1, buf2)
=============================================================================
