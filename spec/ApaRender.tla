------------------------------ MODULE ApaRender ------------------------------
(***************************************************************************)
(* The C08 theorem of MCRender.tla for UNBOUNDED integers, decided by      *)
(* Apalache (SMT) instead of TLC: two labels a, b with arbitrary integer   *)
(* positions (negative ones included), arbitrary widths, thicknesses,      *)
(* layers, layer gap and layer thickness in units of 1/K; box origins by   *)
(* the formulas of Renderer.layout / Timeline.nodePos per direction,       *)
(* printed with "%i" (truncation toward zero).                             *)
(*   layout separated as C01 guarantees (centres (wa+wb)/2 + ns - 1 apart) *)
(*   /\ label spacing ns >= MinNS /\ layer gap >= 1                        *)
(*   => boxes disjoint, on the named side, ordered by layer.               *)
(* Init is the only step (--length=0): the invariants are theorems about   *)
(* every initial state.  MinNS = 3*K is the claim; ApaRenderNeg (MinNS =   *)
(* 2*K) must produce a counterexample.                                     *)
(* hw = half the extent along the axis, so that centre - hw is exact.      *)
(***************************************************************************)
EXTENDS Integers
K == 1000
VARIABLES
  \* @type: Int;
  apos,
  \* @type: Int;
  ahw,
  \* @type: Int;
  at,
  \* @type: Int;
  alayer,
  \* @type: Int;
  bpos,
  \* @type: Int;
  bhw,
  \* @type: Int;
  bt,
  \* @type: Int;
  blayer,
  \* @type: Int;
  gap,
  \* @type: Int;
  ns,
  \* @type: Int;
  nodeh,
  \* @type: Int;
  minns,
  \* @type: Str;
  dir

vars == <<apos, ahw, at, alayer, bpos, bhw, bt, blayer, gap, ns, nodeh, minns, dir>>
Abs(x) == IF x < 0 THEN -x ELSE x
\* "%i" of a value given in units of 1/K, result in the same units
Trunc(x) == IF x >= 0 THEN K * (x \div K) ELSE -(K * ((-x) \div K))
InitWith(m) ==
  /\ minns = m
  /\ apos \in Int /\ bpos \in Int                                 \* rounded positions: whole units
  /\ ahw \in Int /\ bhw \in Int /\ ahw >= 0 /\ bhw >= 0
  /\ at \in Int /\ bt \in Int /\ at >= 0 /\ bt >= 0
  /\ alayer \in Int /\ blayer \in Int /\ alayer >= 0 /\ blayer >= 0
  /\ gap \in Int /\ gap >= K
  /\ ns \in Int /\ ns >= m
  /\ nodeh \in Int /\ nodeh >= at /\ nodeh >= bt                  \* layer thickness: at least every label's thickness
  /\ dir \in {"up", "down", "left", "right"}
  /\ (alayer = blayer => K * Abs(apos - bpos) >= ahw + bhw + ns - K)
Init == InitWith(3 * K)
InitNeg == InitWith(2 * K)
Next == UNCHANGED vars
Sgn == IF dir \in {"down", "right"} THEN 1 ELSE -1
LayerPos(l) == l * (gap + nodeh) + gap
AcrossOrigin(l, t) == IF Sgn = 1 THEN Trunc(LayerPos(l))
                      ELSE IF dir = "up" THEN Trunc(-LayerPos(l) - nodeh)
                      ELSE Trunc(-LayerPos(l) - nodeh - t + nodeh)
AlongOrigin(p, hw) == Trunc(K * p - hw)
Disj(pa0, pal, pc0, pcl, qa0, qal, qc0, qcl) == pa0 + pal < qa0 \/ qa0 + qal < pa0 \/ pc0 + pcl < qc0 \/ qc0 + qcl < pc0
Disjoint == Disj(AlongOrigin(apos, ahw), 2 * ahw, AcrossOrigin(alayer, at), at,
                 AlongOrigin(bpos, bhw), 2 * bhw, AcrossOrigin(blayer, bt), bt)
Side == IF Sgn = 1 THEN AcrossOrigin(alayer, at) >= gap - K ELSE AcrossOrigin(alayer, at) + at <= -(gap - K)
LayerOrder == alayer < blayer =>
    IF Sgn = 1 THEN AcrossOrigin(blayer, bt) >= AcrossOrigin(alayer, at) + at
    ELSE AcrossOrigin(blayer, bt) + bt <= AcrossOrigin(alayer, at)
=============================================================================
