SPECIFICATION TSpec
INVARIANT C03_Inside
INVARIANT C03_SpillKeepsSeparation
CHECK_DEADLOCK FALSE
