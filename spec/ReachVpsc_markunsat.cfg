SPECIFICATION SpecD
CONSTANTS
  N = 3
  Des = {0,1}
  Gaps = {1}
  Weights = {1}
  Scales = {1}
  AllowCycles = TRUE
  StopRule = "no-change"
  OneMerge = TRUE
  Det = FALSE
PROPERTY Reach_MarkUnsat
CHECK_DEADLOCK FALSE
