SPECIFICATION TSpec
INVARIANT C08_Disjoint
INVARIANT C08_Side
INVARIANT C08_LayerOrder
CHECK_DEADLOCK FALSE
