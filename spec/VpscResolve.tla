---------------------------- MODULE VpscResolve ----------------------------
(* Re-solving: a Solver that has reached "done" gets new desired positions   *)
(* (setDesiredPositions) and solve() runs again from the block structure the *)
(* previous run left behind - or, after a setStartingPositions() call that   *)
(* reset the structure and then raised, from singleton blocks with the       *)
(* "unsatisfiable" flags of the earlier run.  Every run must again end feasible with a       *)
(* certified optimum (C05 quantifies over every problem instance; a kept     *)
(* block structure must not matter).  MaxSolves bounds the number of runs.   *)
EXTENDS MCVpsc

CONSTANT MaxSolves
VARIABLE solves
rvars == <<vars, solves>>

InitR == Init /\ solves = 1
NextR == \/ (Next /\ UNCHANGED solves)
         \/ /\ solves < MaxSolves /\ solves' = solves + 1
            /\ \/ \E d \in [NV -> Des] : d # des /\ Retarget(d)
               \/ Restart                 \* a failed setStartingPositions() between two solve() calls on the same problem
StutterR == pc = "done" /\ solves = MaxSolves /\ UNCHANGED rvars
SpecR == InitR /\ [][NextR \/ StutterR]_rvars
\* the second and later runs start from a non-trivial structure
ResolvedFromStructure == ~(solves > 1 /\ pc = "done" /\ active # {})     \* (reachability witness: expected to be violated)
=============================================================================
