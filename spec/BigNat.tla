------------------------------ MODULE BigNat ------------------------------
(* Arbitrary-precision naturals in pure TLA+: little-endian base-10^4 limb   *)
(* sequences without leading zero limbs (<<>> = 0).  TLC's integers are      *)
(* 32-bit; every product that may exceed 2^31 goes through this module.      *)
EXTENDS Integers, Sequences

BASE == 10000
RECURSIVE BTrim(_)
BTrim(a) == IF a # <<>> /\ a[Len(a)] = 0 THEN BTrim(SubSeq(a, 1, Len(a) - 1)) ELSE a
RECURSIVE BFromInt(_)
BFromInt(n) == IF n = 0 THEN <<>> ELSE <<n % BASE>> \o BFromInt(n \div BASE)    \* n >= 0
BLimb(a, i) == IF i <= Len(a) THEN a[i] ELSE 0
BMax(x, y) == IF x > y THEN x ELSE y
RECURSIVE BAddC(_, _, _, _)
BAddC(a, b, i, c) == IF i > BMax(Len(a), Len(b)) THEN (IF c = 0 THEN <<>> ELSE <<c>>)
                     ELSE LET s == BLimb(a, i) + BLimb(b, i) + c IN <<s % BASE>> \o BAddC(a, b, i + 1, s \div BASE)
BAdd(a, b) == BAddC(a, b, 1, 0)
RECURSIVE BMulS(_, _, _, _)     \* a * m for 0 <= m < BASE
BMulS(a, m, i, c) == IF i > Len(a) THEN (IF c = 0 THEN <<>> ELSE <<c>>)
                     ELSE LET s == a[i] * m + c IN <<s % BASE>> \o BMulS(a, m, i + 1, s \div BASE)
RECURSIVE BMulA(_, _, _)
BMulA(a, b, j) == IF j > Len(b) THEN <<>>
                  ELSE BAdd(BMulS(a, b[j], 1, 0), <<0>> \o BMulA(a, b, j + 1))
BMul(a, b) == BTrim(BMulA(a, b, 1))
RECURSIVE BCmpFrom(_, _, _)
BCmpFrom(a, b, i) == IF i = 0 THEN 0 ELSE IF a[i] < b[i] THEN -1 ELSE IF a[i] > b[i] THEN 1 ELSE BCmpFrom(a, b, i - 1)
BCmp(a, b) == IF Len(a) < Len(b) THEN -1 ELSE IF Len(a) > Len(b) THEN 1 ELSE BCmpFrom(a, b, Len(a))
BLe(a, b) == BCmp(a, b) <= 0
BLt(a, b) == BCmp(a, b) < 0
BShiftR(a, k) == IF Len(a) <= k THEN <<>> ELSE SubSeq(a, k + 1, Len(a))     \* floor(a / BASE^k)
BAbsInt(n) == BFromInt(IF n < 0 THEN -n ELSE n)
BSq(n) == LET b == BAbsInt(n) IN BMul(b, b)                                    \* n^2 for a 32-bit n
RECURSIVE BSumSeq(_, _)
BSumSeq(s, i) == IF i > Len(s) THEN <<>> ELSE BAdd(s[i], BSumSeq(s, i + 1))
\* well-formed limb sequence (records coming from the harness are checked)
BWf(a) == /\ \A i \in 1..Len(a) : a[i] \in 0..(BASE - 1)
          /\ (a = <<>> \/ a[Len(a)] # 0)
\* signed values as <<sign, magnitude>>, sign in {-1, 0, 1}
SBig(n) == <<IF n < 0 THEN -1 ELSE IF n = 0 THEN 0 ELSE 1, BAbsInt(n)>>
RECURSIVE BSubC(_, _, _, _)    \* a - b for a >= b
BSubC(a, b, i, c) == IF i > Len(a) THEN <<>>
                     ELSE LET s == a[i] - BLimb(b, i) - c
                          IN IF s < 0 THEN <<s + BASE>> \o BSubC(a, b, i + 1, 1) ELSE <<s>> \o BSubC(a, b, i + 1, 0)
BSub(a, b) == BTrim(BSubC(a, b, 1, 0))
SAdd(x, y) == IF x[1] = 0 THEN y ELSE IF y[1] = 0 THEN x
              ELSE IF x[1] = y[1] THEN <<x[1], BAdd(x[2], y[2])>>
              ELSE LET c == BCmp(x[2], y[2])
                   IN IF c = 0 THEN <<0, <<>>>> ELSE IF c > 0 THEN <<x[1], BSub(x[2], y[2])>> ELSE <<y[1], BSub(y[2], x[2])>>
SNeg(x) == <<-x[1], x[2]>>
SSub(x, y) == SAdd(x, SNeg(y))
SMul(x, y) == IF x[1] = 0 \/ y[1] = 0 THEN <<0, <<>>>> ELSE <<x[1] * y[1], BMul(x[2], y[2])>>
SCmp(x, y) == LET d == SSub(x, y) IN d[1]
SLe(x, y) == SCmp(x, y) <= 0
SAbs(x) == <<IF x[1] = 0 THEN 0 ELSE 1, x[2]>>
=============================================================================
