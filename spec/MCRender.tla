------------------------------ MODULE MCRender ------------------------------
(***************************************************************************)
(* Renderer.layout + Timeline.nodePos + "%i" truncation (C08), per         *)
(* direction.  A label is [pos (integer along-axis centre), w (along-axis  *)
(* extent), t (across-axis thickness), layer].  The box origin is computed *)
(* with the code's formulas and truncated toward zero on output.           *)
(* Theorem checked over a lattice that includes negative and half-integer  *)
(* origins: layout separated as C01 guarantees, label spacing >= 3, layer  *)
(* gap >= 1  =>  boxes disjoint, on the named side, ordered by layer.      *)
(* Units: halves (x2), so that w/2 is an integer.                          *)
(***************************************************************************)
EXTENDS Integers, Sequences, FiniteSets, TLC
CONSTANTS Positions, Widths, Thick, Gaps, NS, Dirs
VARIABLES a, b, gap, dir
vars == <<a, b, gap, dir>>
Labels == [pos : Positions, w : Widths, t : Thick, layer : {0, 1}]
\* truncation toward zero of a value given in halves, result in halves
Trunc2(x) == IF x >= 0 THEN 2 * (x \div 2) ELSE -(2 * ((-x) \div 2))
Abs(x) == IF x < 0 THEN -x ELSE x
\* C01 for two labels of one layer (in halves): |pa - pb| >= (wa + wb)/2 + ns - 1
SeparatedC01(x, y) == x.layer = y.layer => 2 * Abs(x.pos - y.pos) >= x.w + y.w + 2 * NS - 4
Init == /\ a \in Labels /\ b \in Labels /\ gap \in Gaps /\ dir \in Dirs
        /\ SeparatedC01(a, b)
Next == UNCHANGED vars
Spec == Init /\ [][Next]_vars
NodeH == IF a.t > b.t THEN a.t ELSE b.t          \* max label thickness is the layer thickness
Sgn == IF dir \in {"down", "right"} THEN 1 ELSE -1
\* Renderer.layout: across-axis start of a layer; box origin across the axis
LayerPos(x) == x.layer * (gap + NodeH) + gap
AcrossOrigin(x) == IF Sgn = 1 THEN Trunc2(LayerPos(x))
                   ELSE IF dir = "up" THEN Trunc2(-LayerPos(x) - NodeH)             \* nodePos up: (x - dx/2, y), y = -pos - nodeHeight
                   ELSE Trunc2(-LayerPos(x) - NodeH - x.t + NodeH)                  \* nodePos left: x - w + dx
AlongOrigin(x) == Trunc2(x.pos - x.w \div 2)      \* pos in halves is even (integer positions); w/2 in halves
Box(x) == [a0 |-> AlongOrigin(x), al |-> x.w, c0 |-> AcrossOrigin(x), cl |-> x.t]
Disj(p, q) == p.a0 + p.al < q.a0 \/ q.a0 + q.al < p.a0 \/ p.c0 + p.cl < q.c0 \/ q.c0 + q.cl < p.c0
Disjoint == a # b => Disj(Box(a), Box(b)) \/ (a.layer = b.layer /\ a.pos = b.pos)
Side == \A x \in {a, b} : IF Sgn = 1 THEN Box(x).c0 >= gap - 2 ELSE Box(x).c0 + Box(x).cl <= -(gap - 2)
LayerOrder == a.layer < b.layer =>
    IF Sgn = 1 THEN Box(b).c0 >= Box(a).c0 + Box(a).cl ELSE Box(b).c0 + Box(b).cl <= Box(a).c0
=============================================================================
