SPECIFICATION Spec
CONSTANTS
  MaxI = 1000000
  NB = 1024
INVARIANT NameOrder
INVARIANT Increasing
INVARIANT ByteRoundTrip
INVARIANT ExpandDoubles
CHECK_DEADLOCK FALSE
