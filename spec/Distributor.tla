----------------------------- MODULE Distributor -----------------------------
(***************************************************************************)
(* Operational model of labella/distributor.py (Distributor.distribute):   *)
(* the three layering algorithms as recursive functions on sequences of    *)
(* labels [id, ideal, w] (integers in the record's unit).                  *)
(*                                                                         *)
(*   none     one layer, input order                                       *)
(*   simple   sorted by ideal position (stable), dealt round-robin over    *)
(*            ceil(required / budget) layers                               *)
(*   overlap  greedy punting: while the remaining labels do not fit the    *)
(*            budget, open a layer and, while it holds more than two       *)
(*            labels and is too wide, remove the label with the highest    *)
(*            overlap count (stable among equals), replacing it by a stub  *)
(*            in the width bookkeeping; punted labels go to the next pass  *)
(*                                                                         *)
(* Options O: [alg, hasLW, lw, densN, densD, ns, sw]  (budget = dens * lw) *)
(* Result: sequence of layers, each a sequence of label ids; a label in    *)
(* layer k owns one stub in every layer j < k.                             *)
(***************************************************************************)
EXTENDS Integers, Sequences, FiniteSets, TLC

RECURSIVE SumWD(_, _)
SumWD(s, i) == IF i > Len(s) THEN 0 ELSE s[i].w + SumWD(s, i + 1)
\* computeRequiredWidth: sum of (w + ns) minus ns  (-ns for the empty list, as in the code)
Req(s, O) == SumWD(s, 1) + (Len(s) - 1) * O.ns
TooWide(width, O) == width * O.densD > O.densN * O.lw            \* width > density * layerWidth
CeilDivD(a, b) == -((-a) \div b)
NumLayers(s, O) == IF O.hasLW = 1 THEN CeilDivD(Req(s, O) * O.densD, O.densN * O.lw) ELSE 1

\* stable insertion sorts
RECURSIVE InsertAsc(_, _)
InsertAsc(acc, x) == IF acc = <<>> THEN <<x>>
                     ELSE IF acc[Len(acc)].ideal <= x.ideal THEN Append(acc, x)
                     ELSE Append(InsertAsc(SubSeq(acc, 1, Len(acc) - 1), x), acc[Len(acc)])
RECURSIVE SortByIdeal(_, _, _)
SortByIdeal(s, i, acc) == IF i > Len(s) THEN acc ELSE SortByIdeal(s, i + 1, TLCEval(InsertAsc(acc, s[i])))
\* descending by count, equal counts keep their order (Python: sort(key=..., reverse=True) is stable)
RECURSIVE InsertDesc(_, _, _)
InsertDesc(acc, x, cnt) == IF acc = <<>> THEN <<x>>
                           ELSE IF cnt[acc[Len(acc)].id] >= cnt[x.id] THEN Append(acc, x)
                           ELSE Append(InsertDesc(SubSeq(acc, 1, Len(acc) - 1), x, cnt), acc[Len(acc)])
RECURSIVE SortByCount(_, _, _, _)
SortByCount(s, i, acc, cnt) == IF i > Len(s) THEN acc ELSE SortByCount(s, i + 1, TLCEval(InsertDesc(acc, s[i], cnt)), cnt)

\* countIdealOverlaps: half-open test of the interval tree (includes the label itself); doubled coordinates
Ovl(a, b) == 2 * b.ideal - b.w < 2 * a.ideal + a.w /\ 2 * b.ideal + b.w > 2 * a.ideal - a.w
IdsOf(s) == {s[i].id : i \in 1..Len(s)}
OverlapSets(s) == [x \in IdsOf(s) |-> {s[j].id : j \in {j \in 1..Len(s) : \E i \in 1..Len(s) : s[i].id = x /\ Ovl(s[i], s[j])}}]

\* inner loop of algorithm_overlap: returns <<layer, punted>>
RECURSIVE Inner(_, _, _, _, _, _)
Inner(cur, curW, cnt, ovl, punted, O) ==
    IF Len(cur) > 2 /\ TooWide(curW, O)
    THEN LET sorted == TLCEval(SortByCount(cur, 1, <<>>, cnt))
             first == sorted[1]
             cnt2 == TLCEval([x \in DOMAIN cnt |-> IF x \in ovl[first.id] THEN cnt[x] - 1 ELSE cnt[x]])
         IN Inner(TLCEval(Tail(sorted)), curW - first.w + O.sw, cnt2, ovl, TLCEval(Append(punted, first)), O)
    ELSE <<cur, punted>>
RECURSIVE Outer(_, _, _)
Outer(punted, layers, O) ==
    IF TooWide(Req(punted, O), O)
    THEN LET ovl == TLCEval(OverlapSets(punted))
             cnt == TLCEval([x \in DOMAIN ovl |-> Cardinality(ovl[x])])
             res == TLCEval(Inner(punted, Req(punted, O), cnt, ovl, <<>>, O))
         IN Outer(TLCEval(res[2]), TLCEval(Append(layers, res[1])), O)
    ELSE IF Len(punted) > 0 THEN Append(layers, punted) ELSE layers

RECURSIVE Deal(_, _, _, _)
Deal(s, i, n, layers) == IF i > Len(s) THEN layers
                         ELSE Deal(s, i + 1, n, TLCEval([layers EXCEPT ![((i - 1) % n) + 1] = Append(@, s[i])]))

Distribute(labels, O) ==
    IF Len(labels) = 0 THEN <<>>
    ELSE IF O.alg = "none" THEN <<labels>>
    ELSE LET s == TLCEval(SortByIdeal(labels, 1, <<>>))
         IN IF O.hasLW = 0 \/ ~TooWide(Req(s, O), O) THEN <<s>>
            ELSE IF O.alg = "simple" THEN Deal(s, 1, NumLayers(s, O), [k \in 1..NumLayers(s, O) |-> <<>>])
            ELSE Outer(s, <<>>, O)

\* ---------------------------------------------------------------- the structural predicates of C04 on a layering
LayerIds(L) == [k \in 1..Len(L) |-> IdsOf(L[k])]
NStubs(L, k) == LET deeper == UNION {IdsOf(L[j]) : j \in (k + 1)..Len(L)} IN Cardinality(deeper)
\* width of layer k with its stubs: labels + one stub per label in a deeper layer + spacing
LayerReq(L, k, O) == SumWD(L[k], 1) + NStubs(L, k) * O.sw + (Len(L[k]) + NStubs(L, k) - 1) * O.ns
ConservationD(labels, L) == /\ UNION {IdsOf(L[k]) : k \in 1..Len(L)} = IdsOf(labels)
                            /\ \A j, k \in 1..Len(L) : j # k => IdsOf(L[j]) \cap IdsOf(L[k]) = {}
                            /\ \A k \in 1..Len(L) : Cardinality(IdsOf(L[k])) = Len(L[k])
CapacityD(labels, L, O) == (O.alg = "overlap" /\ O.hasLW = 1 /\ Len(labels) >= 3 /\ TooWide(Req(labels, O), O)) =>
                              \A k \in 1..Len(L) : Len(L[k]) <= 2 \/ ~TooWide(LayerReq(L, k, O), O)
SingleLayerD(labels, L, O) == (O.alg = "none" \/ O.hasLW = 0 \/ ~TooWide(Req(labels, O), O)) => Len(L) = 1
NoEmptyInnerLayerD(L) == \A k \in 1..Len(L) : Len(L[k]) = 0 => \A j \in k..Len(L) : Len(L[j]) = 0
=============================================================================
