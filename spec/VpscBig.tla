------------------------------ MODULE VpscBig ------------------------------
(* Binding for C05 beyond the exact envelope: 8..60 variables, weights        *)
(* 1e-2..1e10, scales 1/2..4, cyclic constraint graphs.  TLC evaluates, on    *)
(* the result observed from the real solver: termination, feasibility of      *)
(* every constraint the solver did not flag (scaled integers, 1e-5 units),    *)
(* "no flag on an acyclic instance", and that the returned cost equals the    *)
(* cost of the returned positions (BigNat, exact on the scaled values).       *)
EXTENDS Integers, Sequences, FiniteSets, TLC, Json, IOUtils, BigNat

Trace == ndJsonDeserialize(IOEnv.TRACE_FILE)
VARIABLE r
TInit == r \in 1..Len(Trace)
TNext == UNCHANGED r
TSpec == TInit /\ [][TNext]_r
T == Trace[r]

CIds == 1..Len(T.cl)
\* scales were doubled to integers; gaps doubled accordingly (cg5, units 1e-5)
SlackU5(c) == T.sc[T.cr[c]] * T.pos5[T.cr[c]] - T.sc[T.cl[c]] * T.pos5[T.cl[c]] - T.cg5[c]
\* tolerance: rounding of two scaled positions (<= (8+8)/2 units) + 1e-4
C05_Terminates == T.terminated = 1
C05_Feasible == T.terminated = 1 => \A c \in CIds : T.uns[c] = 1 \/ SlackU5(c) >= -20
C05_NoFlagInDag == (T.terminated = 1 /\ T.acyclic = 1) => \A c \in CIds : T.uns[c] = 0
\* cost in units 1e-14 (weights x100, positions x1e6)
CostOfObserved == BSumSeq([v \in 1..T.n |-> BMul(T.wt100[v], BSq(T.pos6[v] - T.des6[v]))], 1)
C05_CostConsistent == T.terminated = 1 =>
     LET c == CostOfObserved
         \* tolerance = effect of rounding the positions to 1e-6 (sum of w*(|x-d|+1) units) + 1e-6 + 1e-8 relative
         rnd == BSumSeq([v \in 1..T.n |-> BMul(T.wt100[v], BAbsInt((IF T.pos6[v] < T.des6[v] THEN T.des6[v] - T.pos6[v] ELSE T.pos6[v] - T.des6[v]) + 1))], 1)
         tol == BAdd(rnd, BAdd(BFromInt(100000000), BShiftR(c, 2)))
     IN BWf(T.ret14) /\ BLe(c, BAdd(T.ret14, tol)) /\ BLe(T.ret14, BAdd(c, tol))
\* the same at full float precision (displacements in units of 1e-12, cost in units of 1e-26): with wall-like weights of 1e10
\* the rounding allowance of the clause above is of the order of the cost itself
CostFine == BSumSeq([v \in 1..T.n |-> BMul(T.wt100[v], BMul(T.disp12[v], T.disp12[v]))], 1)
C05_CostConsistentFine == T.terminated = 1 =>
     LET c == CostFine
         \* rounding of each displacement to 1e-12: sum of w*(|x-d|+1) units; + 1e-6 absolute + 1e-8 relative
         rnd == BSumSeq([v \in 1..T.n |-> BMul(T.wt100[v], BAdd(T.disp12[v], <<1>>))], 1)
         tol == BAdd(rnd, BAdd(<<0, 0, 0, 0, 0, 1>>, BShiftR(c, 2)))
     IN BWf(T.ret26) /\ BLe(c, BAdd(T.ret26, tol)) /\ BLe(T.ret26, BAdd(c, tol))
\* ---- optimality by certificate: the harness may propose a point (1e-6 grid).  If TLC finds it EXACTLY feasible and
\* cheaper than the observed result by more than the tolerance, the observed result is not optimal.
SX(n) == SBig(n)
WitSlack(c) == SSub(SSub(SMul(SX(T.sc[T.cr[c]]), SX(T.wit6[T.cr[c]])), SMul(SX(T.sc[T.cl[c]]), SX(T.wit6[T.cl[c]]))),
                    SMul(SX(T.cg5[c]), SX(10)))                                  \* units 1e-6 (scales and gaps doubled)
WitFeasible == \A c \in CIds : WitSlack(c)[1] >= 0
CostOfWitness == BSumSeq([v \in 1..T.n |-> BMul(T.wt100[v], BSq(T.wit6[v] - T.des6[v]))], 1)
C05_NoBetterFeasiblePoint == (T.terminated = 1 /\ T.haswit = 1) =>
     LET co == CostOfObserved
         rnd == BSumSeq([v \in 1..T.n |-> BMul(T.wt100[v], BAbsInt((IF T.pos6[v] < T.des6[v] THEN T.des6[v] - T.pos6[v] ELSE T.pos6[v] - T.des6[v]) + 1))], 1)
         \* negligible tolerance: 1e-3 absolute (1e11 units of 1e-14) + 1e-6 relative, plus the rounding of the observed positions
         tol == BAdd(rnd, BAdd(<<0, 0, 1000>>, BShiftR(BMulS(co, 100, 1, 0), 2)))
     IN ~(WitFeasible /\ BLt(BAdd(CostOfWitness, tol), co))
=============================================================================
