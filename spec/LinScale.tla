------------------------------ MODULE LinScale ------------------------------
(***************************************************************************)
(* labella.scale.LinearScale objects as a heap (C12, history part).        *)
(*                                                                         *)
(* A scale holds REFERENCES to a domain list and a range list (cells) and  *)
(* a closure that snapshots both at the last rescale().  What a caller     *)
(* observes: the reported domain/range (the cells' current content), the   *)
(* clamp flag and the map (the snapshot).  Contents are abstract tokens:   *)
(* the arithmetic of the map is specified in LinTrace/LinTicks.            *)
(*                                                                         *)
(*   Domain(s, v)  new list from the argument, rescale                     *)
(*   Range(s, v)   stores the caller's (fresh) list, rescale               *)
(*   Clamp(s, b)   rescale                                                 *)
(*   Nice(s, m)    rewrites s's domain list IN PLACE, rescale of s only    *)
(*   RangeAgain(s, v)  the caller edits, in place, the list object the scale *)
(*                 holds as its range (the one it passed earlier, or the one *)
(*                 the getter returned) and passes the SAME object again:    *)
(*                 the setter must rescale (RescaleOnSameList = TRUE; an     *)
(*                 early exit "nothing changed" on identity would be FALSE)  *)
(*   DomainAgain(s, v) the same for the domain: the getter's list edited and *)
(*                 passed back; the setter builds a new list from it         *)
(*   FailedDomain(s)   domain() with an argument that is no pair of numbers  *)
(*                 raises before anything is stored: nothing changes         *)
(*   Copy(s)       new scale; ShareListsOnCopy = TRUE passes the very same *)
(*                 lists on (pinned tree), FALSE copies them               *)
(***************************************************************************)
EXTENDS Integers, Sequences, FiniteSets, TLC

CONSTANTS MaxScales, MaxLen, ShareListsOnCopy, KeepCallersList, RescaleOnSameList, Doms, Rngs, NiceMs

VARIABLES scales,   \* sequence of [dom, rng : cell ids, clamp, snap : <<domain content, range content, clamp>>]
          cells,    \* sequence of contents (cell id = index)
          actor,    \* index of the scale the last action was applied to (0 initially)
          h
vars == <<scales, cells, actor, h>>

Snap(d, r, c) == <<d, r, c>>
\* contents are sequences of strings so that any two are comparable
Init == /\ cells = << <<"d0">>, <<"r0">> >>
        /\ scales = << [dom |-> 1, rng |-> 2, clamp |-> FALSE, snap |-> Snap(<<"d0">>, <<"r0">>, FALSE)] >>
        /\ actor = 0 /\ h = <<>>

NS == Len(scales)
Rescaled(sc, cs) == [sc EXCEPT !.snap = Snap(cs[sc.dom], cs[sc.rng], sc.clamp)]
Log(a, i, x) == h' = Append(h, [a |-> a, i |-> i, x |-> x])

Domain(s, v) == /\ cells' = Append(cells, <<v>>)
                /\ scales' = [scales EXCEPT ![s] = Rescaled([@ EXCEPT !.dom = Len(cells) + 1], cells')]
                /\ actor' = s /\ Log("D", s, v)
\* s.domain(t.domain()): the argument is the very list another scale reports.  The setter builds a NEW list from it
\* (KeepCallersList = FALSE); keeping the caller's object (TRUE) would alias the two scales' domains
DomainFrom(s, t) == /\ s # t
                    /\ IF KeepCallersList
                       THEN /\ cells' = cells
                            /\ scales' = [scales EXCEPT ![s] = Rescaled([@ EXCEPT !.dom = scales[t].dom], cells)]
                       ELSE /\ cells' = Append(cells, cells[scales[t].dom])
                            /\ scales' = [scales EXCEPT ![s] = Rescaled([@ EXCEPT !.dom = Len(cells) + 1], cells')]
                    /\ actor' = s /\ Log("F", s, ToString(t))
Range(s, v) == /\ cells' = Append(cells, <<v>>)
               /\ scales' = [scales EXCEPT ![s] = Rescaled([@ EXCEPT !.rng = Len(cells) + 1], cells')]
               /\ actor' = s /\ Log("R", s, v)
RangeAgain(s, v) == /\ cells' = [cells EXCEPT ![scales[s].rng] = <<v>>]
                    /\ scales' = IF RescaleOnSameList THEN [scales EXCEPT ![s] = Rescaled(@, cells')] ELSE scales
                    /\ actor' = s /\ Log("E", s, v)
DomainAgain(s, v) == /\ cells' = Append([cells EXCEPT ![scales[s].dom] = <<v>>], <<v>>)
                     /\ scales' = [scales EXCEPT ![s] = Rescaled([@ EXCEPT !.dom = Len(cells) + 1], cells')]
                     /\ actor' = s /\ Log("G", s, v)
FailedDomain(s) == /\ UNCHANGED <<scales, cells>> /\ actor' = s /\ Log("X", s, "")
Clamp(s, b) == /\ scales' = [scales EXCEPT ![s] = Rescaled([@ EXCEPT !.clamp = b], cells)]
               /\ UNCHANGED cells /\ actor' = s /\ Log("K", s, IF b THEN "1" ELSE "0")
\* nice() computes the rounded end points and writes them into the SAME list object
Nice(s, m) == /\ cells' = [cells EXCEPT ![scales[s].dom] = <<"nice", m>> \o @]
              /\ scales' = [scales EXCEPT ![s] = Rescaled(@, cells')]
              /\ actor' = s /\ Log("N", s, m)
Copy(s) == /\ NS < MaxScales
           /\ IF ShareListsOnCopy
              THEN /\ cells' = cells
                   /\ scales' = Append(scales, Rescaled(scales[s], cells))
              ELSE /\ cells' = cells \o <<cells[scales[s].dom], cells[scales[s].rng]>>
                   /\ scales' = Append(scales, Rescaled([scales[s] EXCEPT !.dom = Len(cells) + 1, !.rng = Len(cells) + 2], cells'))
           /\ actor' = NS + 1 /\ Log("Y", s, "")

Next == /\ Len(h) < MaxLen
        /\ \E s \in 1..NS :
             \/ \E v \in Doms : Domain(s, v)
             \/ \E v \in Rngs : Range(s, v)
             \/ \E b \in {TRUE} : Clamp(s, b)
             \/ \E m \in NiceMs : Nice(s, m)
             \/ Copy(s)
             \/ \E t \in 1..NS : DomainFrom(s, t)
             \/ \E v \in Rngs : RangeAgain(s, v)
             \/ \E v \in Doms : DomainAgain(s, v)
             \/ FailedDomain(s)
Spec == Init /\ [][Next]_vars

\* ---- what a caller observes of scale s
Obs(s) == <<cells[scales[s].dom], cells[scales[s].rng], scales[s].clamp, scales[s].snap>>
\* the map sends the snapshot's domain end points to the snapshot's range end points, so the scale maps the
\* end points of the domain it REPORTS to the range it REPORTS iff the snapshot is current
EndpointsMap == \A s \in 1..NS : scales[s].snap = Snap(cells[scales[s].dom], cells[scales[s].rng], scales[s].clamp)
\* a copy and its original never influence each other: an action on `actor` leaves every other scale's observation unchanged
CopyIndependent == [][\A s \in 1..NS : s # actor' => Obs(s)' = Obs(s)]_vars
=============================================================================
