SPECIFICATION T2Spec
CONSTANTS
  MaxScales = 4
  MaxLen = 64
  RescaleOnSameList = TRUE
  KeepCallersList = FALSE
  ShareListsOnCopy = FALSE
  Doms = {"dA", "dB", "dC"}
  Rngs = {"rA", "rB"}
  NiceMs = {"10", "2"}
INVARIANT C15_CallsComplete
INVARIANT C15_EndpointsMapAfterHistory
INVARIANT C15_InvertAfterHistory
INVARIANT SameShape
CHECK_DEADLOCK TRUE
