SPECIFICATION TSpec
INVARIANT C04_Conservation
INVARIANT C04_Contiguous
INVARIANT C04_Chains
INVARIANT C04_LayerIndexAttr
INVARIANT C04_ReportedLayersMatch
INVARIANT C04_SingleLayer
INVARIANT C04_Capacity
CHECK_DEADLOCK FALSE
