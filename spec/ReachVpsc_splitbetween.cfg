SPECIFICATION SpecD
CONSTANTS
  N = 3
  Des = {0,1,2}
  Gaps = {0,1,2}
  Weights = {1,3}
  Scales = {1}
  AllowCycles = FALSE
  StopRule = "no-change"
  OneMerge = TRUE
  Det = FALSE
PROPERTY Reach_SplitBetween
CHECK_DEADLOCK FALSE
