------------------------------- MODULE MCNames -------------------------------
(* NameOrder: Name(0) = "A" and Name(i+1) is the shortlex successor of        *)
(* Name(i) - hence names are pairwise different and enumerate the non-empty   *)
(* strings over A-Z in length-then-alphabetical order.  Checked for every     *)
(* i in 0..MaxI (the range is cut into blocks so that TLC's workers share it).*)
EXTENDS Names
CONSTANTS MaxI, NB
VARIABLES i, stop
Blk == MaxI \div NB + 1
Min2(a, b) == IF a < b THEN a ELSE b
Init == \E k \in 0..(NB - 1) : i = k * Blk /\ stop = Min2((k + 1) * Blk - 1, MaxI) /\ i <= MaxI
Next == i < stop /\ i' = i + 1 /\ UNCHANGED stop
Spec == Init /\ [][Next]_<<i, stop>>
NameOrder == Name(i + 1) = Succ(Name(i)) /\ (i = 0 => Name(0) = <<1>>)
Increasing == ShortLexLt(Name(i), Name(i + 1)) /\ WellFormed(Name(i))
\* colour channels: the byte <-> two hex digits map is a bijection (all 256 values), 3-digit expansion doubles
ByteRoundTrip == \A v \in 0..255 : Byte2(v) = HexChar(v \div 16) \o HexChar(v % 16) /\ 16 * (v \div 16) + (v % 16) = v
ExpandDoubles == \A d \in 0..15 : 17 * d = 16 * d + d
=============================================================================
