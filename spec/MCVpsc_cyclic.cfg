SPECIFICATION Spec
CONSTANTS
  N = 3
  Des = {0,1}
  Gaps = {0,1}
  Weights = {1,2}
  Scales = {1}
  AllowCycles = TRUE
  StopRule = "no-change"
  OneMerge = TRUE
  Det = FALSE
INVARIANT Feasible
INVARIANT Certified
INVARIANT NoFlagInDag
INVARIANT Forest
INVARIANT Bound
CHECK_DEADLOCK FALSE
PROPERTY Terminates
