SPECIFICATION Spec
CONSTANTS
  NMax = 4
  Ideals = {0, 4, 6, 8, 18}
  Widths = {4, 14}
  LWs = {0, 16, 32, 48}
  Dens <- DensSet
  NSs = {0, 4, 12}
  SWs = {0, 4}
  Algs = {"overlap", "simple", "none"}
  NB = 256
INVARIANT Conservation
INVARIANT Capacity
INVARIANT SingleLayer
INVARIANT NoEmptyInnerLayer
CHECK_DEADLOCK FALSE
