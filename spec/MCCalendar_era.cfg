SPECIFICATION Spec
CONSTANTS
  NegDayLo <- EraNegLo
  DayHi = 157113
  Times = {0, 1, 43200000, 86399999}
  KMax = 12
INVARIANT RoundTrip
INVARIANT Advances
INVARIANT WeekCycle
INVARIANT EraShift
INVARIANT FloorOK
INVARIANT CeilOK
INVARIANT RoundOK
INVARIANT SuccOK
INVARIANT OffsetOK
CHECK_DEADLOCK FALSE
