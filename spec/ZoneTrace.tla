------------------------------ MODULE ZoneTrace ------------------------------
(* Binding for C18: one record per computation (a calendar call, a tick list, *)
(* a nice domain, a mapped position, an exported document), carrying the      *)
(* SHA-256 of its observable output under each process time zone, side by     *)
(* side.  Zone independence = all digests equal the UTC digest.               *)
EXTENDS Integers, Sequences, TLC, Json, IOUtils
Trace == ndJsonDeserialize(IOEnv.TRACE_FILE)
VARIABLE r
TInit == r \in 1..Len(Trace)
TNext == UNCHANGED r
TSpec == TInit /\ [][TNext]_r
T == Trace[r]
C18_ZoneIndependent == \A i \in 1..Len(T.out) : T.out[i] = T.out[1]
AllZonesPresent == Len(T.out) = Len(T.zones) /\ T.zones[1] = "UTC"
=============================================================================
