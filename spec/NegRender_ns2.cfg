SPECIFICATION Spec
CONSTANTS
  Positions = {0, 2, 4, 20, 24, 26, 28, 36}
  Widths = {1, 2, 5, 13}
  Thick = {3, 26, 35}
  Gaps = {2, 3, 5, 40, 120}
  NS = 4
  Dirs = {"up", "down", "left", "right"}
INVARIANT Disjoint
CHECK_DEADLOCK FALSE
