# -*- coding: utf-8 -*-
"""Driver for C14 (time), C15, C16 (and their C18 zone variants): labella.scale.TimeScale records.

stdin : {"seed", "mode": "ticks"|"nice"|"map"|"hist", "curated": {"stride", "offset"}?, "random": n}
"""
import datetime as dt
import json
import random
import sys
from fractions import Fraction

from labella.scale import LinearScale, TimeScale

import guard

EPOCH = dt.datetime(1970, 1, 1)
MS = dt.timedelta(milliseconds=1)
LO, HI = dt.datetime(1900, 1, 1), dt.datetime(2199, 12, 31, 23, 59, 59, 999000)


def proj(t):
    d = t - EPOCH
    return [d.days, d.seconds * 1000 + d.microseconds // 1000, d.microseconds % 1000]


def limbs(n):
    out = []
    while n > 0:
        out.append(n % 10000)
        n //= 10000
    return out


def sbig(fr):
    n = int(round(fr))
    return [(-1 if n < 0 else (1 if n > 0 else 0)), limbs(abs(n))]


DAY = 86400000
SPANS = [1, 2, 5, 7, 8, 9, 10, 15, 30, 50, 100, 250, 500, 1000, 2000, 5000, 10000, 30000, 60000, 90000, 300000, 600000,
         900000, 1800000, 3600000, 7200000, 10800000, 21600000, 43200000, DAY, DAY * 3 // 2, 2 * DAY, 3 * DAY, 5 * DAY, 7 * DAY,
         10 * DAY, 14 * DAY, 20 * DAY, 30 * DAY, 31 * DAY, 42 * DAY, 45 * DAY, 56 * DAY, 70 * DAY, 84 * DAY, 98 * DAY, 112 * DAY, 60 * DAY, 90 * DAY, 120 * DAY, 180 * DAY, 270 * DAY, 365 * DAY,
         366 * DAY, 500 * DAY, 730 * DAY, 1096 * DAY, 1826 * DAY, 2922 * DAY, 3652 * DAY, 7305 * DAY, 10957 * DAY, 18262 * DAY,
         36524 * DAY, 54786 * DAY, 73048 * DAY, 91310 * DAY]
STARTS = []
for (y, mo, d) in [(1900, 1, 1), (1999, 12, 31), (2000, 2, 28), (2000, 2, 29), (2023, 1, 29), (2023, 1, 31), (2023, 3, 31), (2023, 4, 30),
                   (2023, 5, 31), (2023, 7, 31), (2023, 8, 31), (2023, 10, 29), (2023, 12, 31), (2024, 2, 29), (2024, 3, 9),
                   (2024, 3, 10), (2024, 6, 1), (2024, 11, 3), (2100, 2, 28), (1950, 6, 15),
                   # leap days whose year is NOT a multiple of 5 / 10 / 20 (2000 and 2024 - 4 both round down to leap years)
                   (1996, 2, 29), (2012, 2, 29), (1904, 2, 29), (2096, 2, 29)]:
    for tod in (dt.timedelta(0), dt.timedelta(milliseconds=-1), dt.timedelta(milliseconds=1), dt.timedelta(hours=13, minutes=37, seconds=11, milliseconds=500)):
        t = dt.datetime(y, mo, d) + tod
        if t >= LO:
            STARTS.append(t)
# wall-clock times that do not exist in one of the C18 zones (spring-forward gaps): naive values must be taken as they are
for (y, mo, d, hh, mi) in [(2024, 3, 10, 2, 30), (2024, 3, 10, 2, 0), (2024, 10, 6, 2, 15), (2024, 9, 29, 3, 0), (2024, 9, 29, 2, 45),
                           (2023, 3, 12, 2, 59), (2024, 11, 3, 1, 30), (2024, 4, 7, 1, 45)]:
    STARTS.append(dt.datetime(y, mo, d, hh, mi))
MS_CHOICES = [2, 3, 5, 10, 20, 50]


class OutOfScope(Exception):
    pass


PRE_CHOICES = [["ticks_o:2"], ["ticks_o:50", "copy"], ["copy"], ["copy", "range"], ["nice_o:2"], ["nice_o:3", "ticks_o:2"], ["redomain"],
               ["ticks_o:3", "redomain", "copy"], ["range", "ticks_o:2"], ["nice_o:20", "copy"]]


def used_scale(d0, d1, pre):
    """A scale that has a past: the ticks / niced domain of a scale are those of the domain it reports NOW, whatever was
    called on it (or on the scale it was copied from) before.  Returns the scale and the domain it reports."""
    s = TimeScale().domain([d0, d1])
    for call in pre or []:
        if call.startswith("ticks_o:"):
            list(s.ticks(int(call[8:])))
        elif call.startswith("nice_o:"):
            s.nice(int(call[7:]))
        elif call == "copy":
            s = s.copy()
        elif call == "range":
            s.range([5, 500])
        elif call == "redomain":
            s.domain([d0 - dt.timedelta(days=40), d1 + dt.timedelta(hours=5)])
            s.domain([d0, d1])
    if pre:
        d0, d1 = s.domain()
        if not (LO <= min(d0, d1) and max(d0, d1) <= HI):
            raise OutOfScope()
    return s, d0, d1


def ticks_record(d0, d1, m, pre=None, default=False):
    rec = {"kind": "tticks", "dom": [proj(d0), proj(d1)], "m": m, "ticks": [], "err": ""}
    try:
        with guard.limit(60):
            s, d0, d1 = used_scale(d0, d1, pre)
        rec["dom"] = [proj(d0), proj(d1)]
        if pre:
            rec["pre"] = list(pre)
        with guard.limit(60):
            first = s.ticks() if default and m == 10 else s.ticks(m)
            if isinstance(first, list) and first:
                first.reverse()             # the caller edits the list it was given and asks again: the SECOND answer is observed
                first.pop()
            rec["ticks"] = [proj(t) for t in (s.ticks() if default and m == 10 else s.ticks(m))]
    except OutOfScope:
        return None
    except Exception as ex:
        rec["err"] = type(ex).__name__
    return rec


def nice_record(d0, d1, m, pre=None):
    mm = 10 if m is None else m
    rec = {"kind": "tnice", "dom": [proj(d0), proj(d1)], "m": mm, "ticks": [], "niced": [[0, 0, 0], [0, 1, 0]], "err": ""}
    try:
        with guard.limit(60):
            s, d0, d1 = used_scale(d0, d1, pre)
        if pre:
            rec["pre"] = list(pre)
            rec["dom"] = [proj(d0), proj(d1)]
            if d0 == d1 or abs(d1 - d0) < 10 * MS:
                return None
    except OutOfScope:
        return None
    except Exception as ex:
        rec["err"] = type(ex).__name__
        return rec
    try:
        with guard.limit(60):
            rec["ticks"] = [proj(t) for t in TimeScale().domain([d0, d1]).ticks(mm)]
    except Exception:
        rec["ticks"] = []
    try:
        with guard.limit(60):
            if m is None:
                s.nice()
            else:
                s.nice(m)
        rec["niced"] = [proj(x) for x in s.domain()]
    except Exception as ex:
        rec["err"] = type(ex).__name__
    return rec


RANGES = [("0", "360"), ("400", "0"), ("0.5", "1000.25"), ("-200", "200"), ("0", "1")]


def ms_of(t):
    return (t - EPOCH) / MS


def map_record(d0, d1, t, t2, rng):
    r0s, r1s = rng
    r0, r1 = float(r0s), float(r1s)
    s = TimeScale().domain([d0, d1]).range([r0, r1])
    y, y2 = s(t), s(t2)
    lin = LinearScale().domain([ms_of(d0), ms_of(d1)]).range([r0, r1])
    span = abs((d1 - d0) / MS)
    factor = 1 + int((abs((t - d0) / MS) + abs((t - d1) / MS) + abs((t2 - d0) / MS) + abs((t2 - d1) / MS)) / span)
    inside = 1 if min(d0, d1) <= t <= max(d0, d1) else 0
    rec = {"kind": "tmap", "dom": [proj(d0), proj(d1)], "t": proj(t), "t2": proj(t2),
           "r0": sbig(Fraction(r0s) * 10 ** 9), "r1": sbig(Fraction(r1s) * 10 ** 9),
           "y": sbig(Fraction(y) * 10 ** 9), "y2": sbig(Fraction(y2) * 10 ** 9), "ylin": sbig(Fraction(lin(ms_of(t))) * 10 ** 9),
           "at_d0": 1 if s(d0) == r0 else 0, "at_d1": 1 if s(d1) == r1 else 0,
           "factor": min(factor, 10 ** 6), "inside": inside, "inv": [0, 0, 0],
           "cmp": (1 if y2 > y else (-1 if y2 < y else 0))}
    if inside and r0 != r1:
        rec["inv"] = proj(s.invert(y))
    return rec


def rand_instant(rng):
    t = LO + dt.timedelta(days=rng.randint(0, 109500), milliseconds=rng.randint(0, DAY - 1))
    if rng.random() < 0.35:
        y = rng.randint(1900, 2198)
        mo = rng.randint(1, 12)
        first_next = dt.datetime(y + (mo == 12), mo % 12 + 1, 1)
        t = first_next - dt.timedelta(days=rng.choice([1, 1, 2, 3]), milliseconds=rng.choice([0, 0, 1, rng.randint(0, DAY - 1)]))
    return t


def domains(job, rng, lo_span, hi_span):
    cur = job.get("curated")
    if cur:
        k = 0
        for st in STARTS:
            for sp in SPANS:
                if sp < lo_span or sp > hi_span:
                    continue
                if k % cur["stride"] == cur["offset"]:
                    end = st + dt.timedelta(milliseconds=sp)
                    if end <= HI:
                        yield (st, end) if (k // cur["stride"]) % 3 else (end, st)
                k += 1
    if cur:
        # multi-year domains with a leap day at either end (every one of them: they are few)
        for (y, tod) in [(1996, 0), (2012, 49031500), (1904, 0), (2096, 43200000), (2008, 1), (2196, 0)]:
            leap = dt.datetime(y, 2, 29) + dt.timedelta(milliseconds=tod)
            for sp in SPANS:
                if sp < max(lo_span, 730 * DAY) or sp > hi_span:
                    continue
                for st, end in ((leap, leap + dt.timedelta(milliseconds=sp)), (leap - dt.timedelta(milliseconds=sp), leap)):
                    if LO <= st and end <= HI:
                        yield (st, end) if (sp // DAY) % 2 else (end, st)
    for _ in range(job.get("tiny", 0)):
        # domains only a few milliseconds long at arbitrary instants: conversion errors of 1e-4 ms would be visible here
        st = rand_instant(rng)
        end = st + dt.timedelta(milliseconds=rng.choice([1, 1, 2, 3, 5, 9, 17]))
        if end <= HI:
            yield (st, end) if rng.random() < 0.7 else (end, st)
    for _ in range(job.get("random", 0)):
        st = rand_instant(rng)
        sp = rng.choice(SPANS) if rng.random() < 0.5 else int(10 ** rng.uniform(0, 12.89))
        sp = max(lo_span, min(sp, hi_span))
        end = st + dt.timedelta(milliseconds=sp)
        if end > HI:
            continue
        yield (st, end) if rng.random() < 0.7 else (end, st)


LADDER = [1000, 5000, 15000, 30000, 60000, 300000, 900000, 1800000, 3600000, 10800000, 21600000, 43200000, DAY, 2 * DAY, 7 * DAY,
          30 * DAY, 90 * DAY, 365 * DAY]


def exact_threshold_domains(n, rng):
    """Domains whose span per requested tick sits EXACTLY on a rung of the tick-interval ladder (or on the geometric mean of
    two rungs, where the choice flips), and one millisecond to either side: comparisons that are only decided by equality."""
    for _ in range(n):
        m = rng.choice(MS_CHOICES + [10, 10])
        i = rng.randrange(len(LADDER))
        if rng.random() < 0.6 or i == 0:
            per = LADDER[i]
        else:
            per = int(round((LADDER[i - 1] * LADDER[i]) ** 0.5))
        sp = per * m + rng.choice([0, 0, 0, 1, -1])
        st = rand_instant(rng)
        if rng.random() < 0.4:
            st = dt.datetime(st.year, st.month, 1) if rng.random() < 0.5 else dt.datetime(st.year, 1, 1)
        end = st + dt.timedelta(milliseconds=sp)
        if end > HI or sp < 10:
            continue
        yield ((st, end) if rng.random() < 0.7 else (end, st)), m


# ------------------------------------------------------------------ histories (C15: every time scale, however it was obtained)
HDOMS = {"dA": [dt.datetime(2001, 3, 4, 5, 6, 7, 89000), dt.datetime(2001, 3, 9)],
         "dB": [dt.datetime(1999, 12, 31, 23, 59, 59, 999000), dt.datetime(2000, 1, 1, 0, 0, 0, 5000)],
         "dC": [dt.datetime(2150, 6, 1), dt.datetime(1905, 2, 28, 12)]}
HRNGS = {"rA": [0, 100], "rB": [50.5, -50]}


def observe(s):
    d = s.domain()
    r = s.range()
    probe = d[0] + ((d[1] - d[0]) * 37 // 100) // MS * MS
    y0, y1 = s(d[0]), s(d[1])
    # the inverse: the range end points come back as the domain end points, to within a millisecond (both directions of the map
    # belong to the scale's CURRENT domain and range, whatever was asked of it before)
    v0 = v1 = 1
    if r[0] != r[1] and d[0] != d[1]:
        try:
            v0 = 1 if abs(s.invert(r[0]) - d[0]) <= MS else 0
            v1 = 1 if abs(s.invert(r[1]) - d[1]) <= MS else 0
        except Exception:
            v0 = v1 = 0
    return {"d": [x.isoformat() for x in d], "r": [repr(float(x)) for x in r], "c": 1 if s.clamp() else 0,
            "y0": repr(float(y0)), "y1": repr(float(y1)), "yp": repr(float(s(probe))),
            "e0": 1 if y0 == r[0] else 0, "e1": 1 if y1 == r[1] else 0, "v0": v0, "v1": v1}


def play_hist(h, doms, rngs):
    scales = [TimeScale().domain(list(doms["d0"])).range(list(rngs["r0"]))]
    rec = {"obs0": [observe(scales[0])], "ev": []}
    for e in h:
        a, i, x = e["a"], e["i"], e["x"]
        s = scales[i - 1]
        err = ""
        try:
            if a == "D":
                s.domain(list(doms[x]))
            elif a == "R":
                s.range(list(rngs[x]))
            elif a == "K":
                s.clamp(x == "1")
            elif a == "N":
                s.nice(int(x))
            elif a == "Y":
                scales.append(s.copy())
            elif a == "E":
                # the caller edits, in place, the list object the scale holds as its range and passes the SAME object again
                r = s.range()
                if not isinstance(r, list):
                    r = list(r)
                    s.range(r)
                r[0], r[1] = rngs[x][0], rngs[x][1]
                s.range(r)
            elif a == "G":
                # the list the getter returned, edited in place and passed back
                d = s.domain()
                if not isinstance(d, list):
                    d = list(d)
                d[0], d[1] = doms[x][0], doms[x][1]
                s.domain(d)
            elif a == "X":
                # no pair of instants: the setter raises before it stores anything, the caller catches it and goes on
                try:
                    s.domain([doms["dA"][0], None])
                except (TypeError, ValueError, AttributeError):
                    pass
            elif a == "F":
                s.domain(scales[int(x) - 1].domain())
            elif a == "T":
                s.ticks(int(x))
        except Exception as ex:          # a setter / nice / copy that raises on a legal argument: data for the verdict
            err = type(ex).__name__
        rec["ev"].append({"a": a, "i": i, "x": x, "err": err, "obs": [observe(t) for t in scales]})
    return rec


def random_hist(rng):
    def dom():
        a = rand_instant(rng)
        sp = rng.choice(SPANS) if rng.random() < 0.6 else int(10 ** rng.uniform(0.5, 12.5))
        b = min(HI, a + dt.timedelta(milliseconds=sp))
        if a == b:
            a = b - MS
        return [a, b] if rng.random() < 0.7 else [b, a]
    doms = {"dA": dom(), "dB": dom(), "dC": dom(), "d0": dom()}
    rngs = {"rA": [0, rng.choice([100, 360, 0.5])], "rB": [rng.uniform(10, 500), rng.uniform(-500, 5)], "r0": [0, 1]}
    n = 1
    h = []
    for _ in range(rng.randint(3, 15)):
        a = rng.choice(["D", "D", "R", "K", "N", "N", "Y", "F", "E", "E", "G", "X", "T"])
        i = rng.randint(1, n)
        if a == "Y":
            if n >= 4:
                continue
            n += 1
            x = ""
        elif a == "F":
            if n < 2:
                continue
            x = str(rng.choice([t for t in range(1, n + 1) if t != i]))
        elif a in ("D", "G"):
            x = rng.choice(["dA", "dB", "dC"])
        elif a in ("R", "E"):
            x = rng.choice(["rA", "rB"])
        elif a == "X":
            x = ""
        elif a == "K":
            x = "1"
        else:
            x = rng.choice(["10", "2"])
        h.append({"a": a, "i": i, "x": x})
    return h, doms, rngs


def main():
    job = json.load(sys.stdin)
    rng = random.Random(job.get("seed", 0))
    mode = job["mode"]
    recs = []
    if mode == "ticks":
        for d0, d1 in domains(job, rng, 1, 250 * 365 * DAY):
            for m in rng.sample(MS_CHOICES, job.get("ms_per_domain", 2)) + [10]:
                recs.append(ticks_record(d0, d1, m))
            if rng.random() < 0.35:
                r = ticks_record(d0, d1, rng.choice(MS_CHOICES + [10, 10]), pre=rng.choice(PRE_CHOICES), default=rng.random() < 0.7)
                if r is not None:
                    recs.append(r)
        for (d0, d1), m in exact_threshold_domains(job.get("exact", 0), rng):
            recs.append(ticks_record(d0, d1, m))
    elif mode == "nice":
        for d0, d1 in domains(job, rng, 10, 200 * 365 * DAY):
            for m in [None, rng.choice([2, 5, 20])]:
                recs.append(nice_record(d0, d1, m))
            if rng.random() < 0.35:
                r = nice_record(d0, d1, rng.choice([None, None, 2, 5, 20]), pre=rng.choice(PRE_CHOICES))
                if r is not None:
                    recs.append(r)
        for (d0, d1), m in exact_threshold_domains(job.get("exact", 0), rng):
            recs.append(nice_record(d0, d1, m))
    elif mode == "map":
        for d0, d1 in domains(job, rng, 1, 250 * 365 * DAY):
            span = d1 - d0
            for _ in range(job.get("queries", 3)):
                f = rng.choice([0, 1, rng.random(), rng.random(), -rng.random() * 3, 1 + rng.random() * 5])
                us = (span * f) // MS * MS
                t = d0 + us
                t2 = t + abs(span) * rng.random() + MS
                if rng.random() < 0.25:
                    t2 = t + MS * rng.choice([1, 1, 2, 7])          # instants only milliseconds apart
                if not (LO <= t <= HI and LO <= t2 <= HI):
                    continue
                t2 = EPOCH + ((t2 - EPOCH) // MS) * MS
                recs.append(map_record(d0, d1, t, t2, rng.choice(RANGES)))
    elif mode == "hist":
        fixed = dict(HDOMS, d0=[dt.datetime(2000, 1, 1), dt.datetime(2000, 1, 2)])
        for h in job.get("histories", []):
            recs.append(play_hist(h, fixed, dict(HRNGS, r0=[0, 1])))
        for _ in range(job.get("count", 0)):
            h, doms, rngs = random_hist(rng)
            recs.append(play_hist(h, doms, rngs))
    json.dump({"records": recs}, sys.stdout)


if __name__ == "__main__":
    main()
