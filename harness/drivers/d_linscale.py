# -*- coding: utf-8 -*-
"""Driver for C12 / C13 / C14-linear: labella.scale.LinearScale call/return records.

stdin : {"mode": "ticks"|"map"|"hist", "seed", "count", "lattice": {...}?}
stdout: {"records": [...], "discarded": n}
"""
import itertools
import json
import math
import random
import sys
from fractions import Fraction

import guard
from labella.scale import LinearScale

INT_MAX = 2 ** 31 - 1


def limbs(n):
    out = []
    while n > 0:
        out.append(n % 10000)
        n //= 10000
    return out


def sbig(fr):
    n = int(round(fr))
    return [(-1 if n < 0 else (1 if n > 0 else 0)), limbs(abs(n))]


def step_cert(step):
    exp = int(math.floor(math.log10(step) + 1e-9))
    mant = int(round(step / 10.0 ** exp))
    if mant == 10:
        mant, exp = 1, exp + 1
    return mant, exp


def internal_step(dom, m):
    try:
        from labella.scale import d3_scale_linearTickRange
        return d3_scale_linearTickRange(list(dom), m)[2]
    except Exception:
        return None


def units(step, lo, hi):
    mant, exp = step_cert(step)
    for Q in (1000, 10):
        u = Fraction(10) ** exp / Q
        big = max(abs(Fraction(lo)), abs(Fraction(hi))) / u
        if big < INT_MAX // 40:
            return mant, exp, Q, u
    return None


def _observe_ticks(d0, d1, m, pre, rec):
    s = LinearScale().domain([d0, d1])
    if pre:
        # the ticks of a scale are those of the domain it reports NOW, whatever was called before
        for call in pre:
            if call == "ticks":
                list(s.ticks(m))
            elif call == "format":
                s.tickFormat(m)
            elif call == "nice":
                s.nice(m)
            elif call == "copy":
                s = s.copy()
            elif call == "sibling":
                # a copy with ANOTHER domain is asked for ticks with the same count first; the original is observed
                z = s.copy()
                z.domain([d0 * 0.5 + (d1 - d0) * 0.31, d0 * 0.5 + (d1 - d0) * 0.43])
                list(z.ticks(m))
                z.tickFormat(m)
            elif call.startswith("ticks_o:"):        # ticks / formatter asked for ANOTHER count earlier
                list(s.ticks(int(call[8:])))
            elif call.startswith("format_o:"):
                s.tickFormat(int(call[9:]))
            elif call == "redomain":
                s.domain([d0 - 1.0, d1 + 3.0])
                s.domain([d0, d1])
        d0, d1 = [float(x) for x in s.domain()]
        rec["dom"] = [repr(d0), repr(d1)]
        rec["pre"] = list(pre)
    first = s.ticks(m)
    if isinstance(first, list) and first:
        first.reverse()                 # the caller edits the list it was given and asks again: the SECOND answer is observed
        first.pop()
    elif not isinstance(first, list):
        next(iter(first), None)         # (a generator: consumed a little and dropped)
    ticks = [float(t) for t in s.ticks(m)]
    fmt = s.tickFormat(m)
    labels = [fmt(t) for t in ticks]
    return d0, d1, ticks, labels


def readback(label):
    """The number a tick label reads as (None when it is not the text of a finite number)."""
    try:
        v = float(label)
    except (TypeError, ValueError):
        return None
    return v if math.isfinite(v) else None


def ticks_record(d0, d1, m, pre=None):
    rec = {"kind": "ticks", "m": m, "err": "", "dom": [repr(d0), repr(d1)]}
    try:
        with guard.limit(60):
            d0, d1, ticks, labels = _observe_ticks(d0, d1, m, pre, rec)
    except Exception as ex:          # (includes guard.CallTimeout: a call did not return)
        rec.update({"err": type(ex).__name__, "mant": 1, "Q": 1, "lo": 0, "hi": 0, "tq": [], "n": [], "lab": [], "lq": [], "lok": [], "xlo": 0, "xhi": 0})
        return rec
    lo, hi = min(d0, d1), max(d0, d1)
    if len(ticks) >= 2:
        step = (ticks[-1] - ticks[0]) / (len(ticks) - 1)
    else:
        step = internal_step([d0, d1], m)
        if step is None:
            return None
    un = units(step, lo, hi)
    base = Fraction(0)
    base_n = 0
    if un is None:
        # a domain millions of steps away from zero does not fit the integer units: record it relative to the last multiple
        # of the step below the domain (every clause - multiples of the step, inside the domain, none missing, labels that
        # read back - is invariant under a shift by a whole number of steps)
        m0, e0 = step_cert(step)
        exact_step = Fraction(m0) * Fraction(10) ** e0
        base_n = (Fraction(lo) / exact_step).__floor__()
        base = base_n * exact_step
        un = units(step, float(Fraction(lo) - base), float(Fraction(hi) - base))
        if un is None:
            return None
    mant, exp, Q, u = un
    q = lambda v: int(round((Fraction(v) - base) / u))
    rec.update({
        "mant": mant, "Q": Q, "exp": exp, "lo": q(lo), "hi": q(hi),
        "tq": [q(t) for t in ticks], "n": [int(round(Fraction(t) / (Fraction(mant) * Fraction(10) ** exp))) - base_n for t in ticks],
        # (a label that reads back as a number absurdly far from its tick is clamped into TLC's integers: it still does not
        #  read back as its tick)
        "lab": labels, "lq": [max(-2 * 10 ** 9, min(2 * 10 ** 9, q(readback(x)))) if readback(x) is not None else 0 for x in labels],
        "lok": [0 if readback(x) is None else 1 for x in labels],
    })
    # "inside the domain up to floating-point effects at the two ends": how far the outermost ticks lie beyond the ends, in
    # thousandths of what float arithmetic can account for (ticks are built by repeated addition: one rounding of the magnitude
    # of the end points per tick; four times that is allowed) - the integer units above cannot see anything below 1e-3 step
    if ticks:
        allowed = 4.0 * len(ticks) * math.ulp(max(abs(lo), abs(hi), abs(step)))
        rec["xlo"] = int(min(10 ** 6, 1000.0 * max(0.0, lo - min(ticks)) / allowed))
        rec["xhi"] = int(min(10 ** 6, 1000.0 * max(0.0, max(ticks) - hi) / allowed))
    else:
        rec["xlo"] = rec["xhi"] = 0
    return rec


def nice_record(d0, d1, m):
    s = LinearScale().domain([d0, d1])
    with guard.limit(60):
        s.nice(m)
    nd = [float(x) for x in s.domain()]
    t = [float(x) for x in LinearScale().domain(list(nd)).ticks(m)]
    if len(t) >= 2:
        step = (t[-1] - t[0]) / (len(t) - 1)
    else:
        step = internal_step(nd, m)
        if step is None:
            return None
    if not (isinstance(step, (int, float)) and step > 0 and math.isfinite(step)):
        # the resulting domain has no tick step (nice() collapsed it, or worse): judge the observation in the units of the
        # ORIGINAL domain's tick step - an end that moved inward is still an end that moved inward
        step = internal_step([d0, d1], m)
        if not (isinstance(step, (int, float)) and step > 0 and math.isfinite(step)):
            return None
    lo, hi = min(d0, d1), max(d0, d1)
    nlo, nhi = min(nd), max(nd)
    un = units(step, min(lo, nlo), max(hi, nhi))
    base = Fraction(0)
    if un is None:
        # (as for tick records: a domain millions of steps away from zero is recorded relative to a multiple of the step below it)
        m0, e0 = step_cert(step)
        exact_step = Fraction(m0) * Fraction(10) ** e0
        base = (Fraction(min(lo, nlo)) / exact_step).__floor__() * exact_step
        un = units(step, float(Fraction(min(lo, nlo)) - base), float(Fraction(max(hi, nhi)) - base))
        if un is None:
            return None
    mant, exp, Q, u = un
    q = lambda v: int(round((Fraction(v) - base) / u))
    # how far an end moved INWARD, in thousandths of what float arithmetic accounts for (four roundings at the magnitude of the ends)
    allowed = 4.0 * math.ulp(max(abs(lo), abs(hi), abs(step)))
    xin = int(min(10 ** 6, 1000.0 * max(0.0, nlo - lo, hi - nhi) / allowed))
    return {"kind": "nice", "m": m, "mant": mant, "Q": Q, "exp": exp, "dom": [repr(d0), repr(d1)], "niced": [repr(x) for x in nd],
            "lo": q(lo), "hi": q(hi), "nlo": q(nlo), "nhi": q(nhi), "xin": xin,
            "rev_in": 1 if d0 > d1 else 0, "rev_out": 1 if nd[0] > nd[1] else 0}


def map_record(a, b, x, x2, e_d, r0, r1, e_r, clamp, y0):
    fd = 10.0 ** e_d
    fr = 10.0 ** e_r
    da, db, r0f, r1f = a * fd, b * fd, r0 * fr, r1 * fr
    s = LinearScale().domain([da, db]).range([r0f, r1f]).clamp(bool(clamp))
    ud = Fraction(10) ** e_d
    ur = Fraction(10) ** e_r
    y2 = s.scale(x2 * fd)                  # both public entry points of the map: scale() and __call__
    y = s(x * fd)
    rec = {"kind": "map", "a": a, "b": b, "x": x, "x2": x2, "e_d": e_d, "r0": r0, "r1": r1, "e_r": e_r, "clamp": clamp,
           "y": sbig(Fraction(y) / ur * 10 ** 12), "y2": sbig(Fraction(y2) / ur * 10 ** 12),
           "at_a_exact": 1 if s(da) == r0f else 0, "at_b_exact": 1 if s(db) == r1f else 0,
           "y0": y0, "y0f": 0, "inv": [0, []], "fwdinv": [0, []]}
    if r0 != r1 and not clamp:
        rec["inv"] = sbig(Fraction(s.invert(y)) / ud * 10 ** 12)
        rec["fwdinv"] = sbig(Fraction(s(s.invert(y0 * fr))) / ur * 10 ** 12)
        rec["y0f"] = (abs(y0 - r0) + abs(y0 - r1)) // abs(r1 - r0)
    return rec


def mapf_record(rng):
    pick = lambda: rng.choice([rng.uniform(-1, 1), rng.uniform(-1e3, 1e3), 0.1, 0.7, 1 / 3.0, 1e-6 * rng.random(), 1e9 * rng.random(), 0.0])
    a, b = pick(), pick()
    if a == b:
        b = a + 1.0
    if rng.random() < 0.35:
        # nearly (but not) degenerate: end points that differ only in the last few digits
        a = rng.choice([1e-6, 3.7e-6, 0.001, 1.0, 1234.5, 1e9]) * rng.choice([1, -1])
        b = a * (1 + rng.choice([1, -1]) * 10.0 ** rng.randint(-13, -7))
        if b == a:
            b = a + abs(a) * 1e-7
    r0, r1 = pick(), pick()
    s = LinearScale().domain([a, b]).range([r0, r1]).clamp(rng.random() < 0.3)
    c = s.copy()
    return {"kind": "mapf", "vals": [repr(a), repr(b), repr(r0), repr(r1)],
            "at_a_exact": 1 if (s(a) == r0 and c(a) == r0) else 0, "at_b_exact": 1 if (s(b) == r1 and c(b) == r1) else 0}


# ------------------------------------------------------------------ histories (C12)
DOMS = {"dA": [0, 1], "dB": [-3.3, 7.1], "dC": [10, 2.5], "d0": [0, 1]}
RNGS = {"rA": [0, 100], "rB": [50.5, -50], "r0": [0, 1]}


def observe(s):
    d = s.domain()
    r = s.range()
    probe = 0.37 * d[0] + 0.63 * d[1] if d[0] != d[1] else d[0]
    y1 = s.scale(d[1])                     # both public entry points of the map: scale() and __call__
    y0 = s(d[0])
    # the inverse of the CURRENT map: the range end points come back as the domain end points (1e-9 of the span)
    v0 = v1 = 1
    if r[0] != r[1] and d[0] != d[1]:
        try:
            tol = 1e-9 * (abs(d[1] - d[0]) + abs(d[0]) + abs(d[1]))
            v0 = 1 if abs(s.invert(r[0]) - d[0]) <= tol else 0
            v1 = 1 if abs(s.invert(r[1]) - d[1]) <= tol else 0
        except Exception:
            v0 = v1 = 0
    return {"d": [repr(float(x)) for x in d], "r": [repr(float(x)) for x in r], "c": 1 if s.clamp() else 0,
            "y0": repr(float(y0)), "y1": repr(float(y1)), "yp": repr(float(s.scale(probe))),
            "e0": 1 if y0 == r[0] else 0, "e1": 1 if y1 == r[1] else 0, "v0": v0, "v1": v1}


def play_hist(h, doms, rngs):
    scales = [LinearScale()]
    rec = {"obs0": [observe(scales[0])], "ev": []}
    for e in h:
        a, i, x = e["a"], e["i"], e["x"]
        s = scales[i - 1]
        err = ""
        try:
            if a == "D":
                # (any sequence of two numbers is a domain: lists, tuples, ints and floats)
                s.domain(tuple(doms[x]) if (len(rec["ev"]) + i) % 3 == 0 else list(doms[x]))
            elif a == "R":
                s.range(tuple(rngs[x]) if (len(rec["ev"]) + i) % 3 == 1 else list(rngs[x]))
            elif a == "K":
                s.clamp(x == "1")
            elif a == "N":
                s.nice(int(x))
            elif a == "Y":
                scales.append(s.copy())
            elif a == "E":
                # the caller edits, in place, the list object the scale holds as its range and passes the SAME object again
                r = s.range()
                if not isinstance(r, list):
                    r = list(r)
                    s.range(r)
                r[0], r[1] = rngs[x][0], rngs[x][1]
                s.range(r)
            elif a == "G":
                # the list the getter returned, edited in place and passed back
                d = s.domain()
                if not isinstance(d, list):
                    d = list(d)
                d[0], d[1] = doms[x][0], doms[x][1]
                s.domain(d)
            elif a == "X":
                # no pair of numbers: the setter raises before it stores anything, the caller catches it and goes on
                try:
                    s.domain([doms["dA"][0], None])
                except (TypeError, ValueError, AttributeError):
                    pass
            elif a == "F":
                s.domain(scales[int(x) - 1].domain())        # the very list object the other scale reports
        except Exception as ex:          # a setter / nice / copy that raises on a legal argument: data for the verdict
            err = type(ex).__name__
        rec["ev"].append({"a": a, "i": i, "x": x, "err": err, "obs": [observe(t) for t in scales]})
    return rec


def random_hist(rng):
    doms = {"dA": [rng.uniform(-5, 5), rng.uniform(6, 50)], "dB": [rng.uniform(-1e-3, 1e-3), rng.uniform(2e-3, 1e-2)],
            "dC": [rng.uniform(1e6, 2e6), rng.uniform(-1e6, 0)]}
    rngs = {"rA": [0, rng.choice([100, 360, 0.5])], "rB": [rng.uniform(10, 500), rng.uniform(-500, 5)]}
    if rng.random() < 0.35:
        # successive settings that differ in ONE small integer end point (values a change detector may confuse: -1 and -2 hash
        # alike in CPython, 0 and -0.0 / 1 and True / 1 and 1.0 compare equal)
        a, b = rng.sample([-2, -1, 0, 1, 2, 5, -5], 2)
        c = rng.choice([v for v in (-2, -1, 0, 1, 2, 3) if v not in (a, b)])
        doms = {"dA": [a, b], "dB": [c, b], "dC": [a, float(c)]}
        rngs = {"rA": [a, b], "rB": [c, b]}
    n = 1
    h = []
    for _ in range(rng.randint(3, 15)):
        a = rng.choice(["D", "D", "R", "K", "N", "N", "Y", "F", "E", "E", "G", "X"])
        i = rng.randint(1, n)
        if a == "Y":
            if n >= 4:
                continue
            n += 1
            x = ""
        elif a == "F":
            if n < 2:
                continue
            x = str(rng.choice([t for t in range(1, n + 1) if t != i]))
        elif a in ("D", "G"):
            x = rng.choice(["dA", "dB", "dC"])
        elif a in ("R", "E"):
            x = rng.choice(["rA", "rB"])
        elif a == "X":
            x = ""
        elif a == "K":
            x = "1"
        else:
            x = rng.choice(["10", "2"])
        h.append({"a": a, "i": i, "x": x})
    return h, doms, rngs


def main():
    job = json.load(sys.stdin)
    rng = random.Random(job.get("seed", 0))
    mode = job["mode"]
    recs = []
    disc = 0
    if mode == "ticks":
        doms = []
        lat = job.get("lattice")
        if lat:
            for lo in range(lat["lo"], lat["hi"] + 1):
                for hi in range(lo + 1, lat["hi"] + 1):
                    doms.append((lo, hi))
            doms = doms[lat["offset"]::lat["stride"]]
            for (lo, hi) in doms:
                for m in lat["ms"]:
                    e = rng.choice(lat["exps"])
                    f = 10.0 ** e
                    d0, d1 = (lo * f, hi * f) if rng.random() < 0.7 else (hi * f, lo * f)
                    for fn in (ticks_record, nice_record):
                        r = fn(d0, d1, m)
                        if r is None:
                            disc += 1
                        else:
                            recs.append(r)
        for d0, d1, m in job.get("pinned", []):
            for fn in (ticks_record, nice_record):
                r = fn(d0, d1, m)
                if r is not None:
                    recs.append(r)
        for _ in range(job.get("count", 0) // 3):
            # span chosen so that err = m * step0 / span hugs one of the thresholds 0.15 / 0.35 / 0.75
            m = rng.choice([7, 10, 23, 40, 51, 65, 77, 100])
            step0 = 10.0 ** rng.randint(-5, 6)
            err = rng.choice([0.15, 0.35, 0.75]) + rng.choice([-1, 1]) * rng.choice([0.0004, 0.002, 0.004, 0.006])
            span = m * step0 / err
            lo = rng.choice([0.0, 1.0, -span / 3, step0 * rng.randint(1, 50), rng.uniform(-span, span)])
            d0, d1 = (lo, lo + span) if rng.random() < 0.7 else (lo + span, lo)
            for fn in (ticks_record, nice_record):
                r = fn(d0, d1, m)
                if r is None:
                    disc += 1
                else:
                    recs.append(r)
        for _ in range(job.get("count", 0) // 4):
            # ends a hair OUTSIDE a multiple of the step (1e-7 .. 1e-10 of a step: far above float noise, far below the units of
            # the records): such an end must go out to the NEXT multiple, not "snap" to the one just inside the domain
            m = rng.choice([5, 10, 10, 20])
            step0 = rng.choice([1, 2, 5]) * 10.0 ** rng.randint(-3, 4)
            a = rng.randint(-30, 30)
            b = a + m + rng.randint(-2, 2)
            if b <= a:
                b = a + 3
            eps = step0 * rng.choice([3e-7, 1e-8, 2e-10])
            lo = a * step0 - (eps if rng.random() < 0.7 else 0.0)
            hi = b * step0 + (eps if rng.random() < 0.7 else 0.0)
            d0, d1 = (lo, hi) if rng.random() < 0.7 else (hi, lo)
            for fn in (ticks_record, nice_record):
                r = fn(d0, d1, m)
                if r is None:
                    disc += 1
                else:
                    recs.append(r)
        for _ in range(job.get("count", 0) // 3):
            # far from zero: spans down to a millionth of the end points' magnitude (the small-span edge of the quantifier),
            # where tick labels need 7-9 significant digits
            mag = 10.0 ** rng.uniform(-3, 9) * rng.choice([1, 1, -1])
            span = abs(mag) * 10.0 ** -rng.uniform(3.5, 6)
            lo = mag * rng.uniform(0.5, 1.0)
            if rng.random() < 0.3:
                lo = float(int(lo)) + 0.5 if abs(lo) > 10 else lo
            m = rng.choice([None, 1, 2, 3, 5, 10, 20, 40, 70, 100])       # (many ticks on a tiny relative span: steps of 1e-8 of the magnitude)
            d0, d1 = (lo, lo + span) if rng.random() < 0.7 else (lo + span, lo)
            for fn in (ticks_record, nice_record):
                r = fn(d0, d1, m)
                if r is None:
                    disc += 1
                else:
                    r["m"] = 10 if m is None else m
                    recs.append(r)
        for _ in range(job.get("count", 0)):
            mag = 10.0 ** rng.uniform(-6, 9)
            span = mag * 10.0 ** rng.uniform(-3.5, 1.5)
            lo = rng.uniform(-mag, mag)
            if rng.random() < 0.2:
                lo = 0.0
            hi = lo + span
            if hi == lo:
                continue
            m = rng.choice([None, 1, 2, 3, 4, 5, 7, 10, 10, 12, 20, 33, 50, 77, 100])
            d0, d1 = (lo, hi) if rng.random() < 0.7 else (hi, lo)
            mm = 10 if m is None else m
            for fn in (ticks_record, nice_record):
                r = fn(d0, d1, m) if m is not None else fn(d0, d1, None)
                if r is None:
                    disc += 1
                else:
                    r["m"] = mm
                    recs.append(r)
            if rng.random() < 0.4:
                pre = rng.choice([["ticks", "nice"], ["nice"], ["ticks", "format", "nice"], ["copy", "nice"], ["ticks", "redomain"],
                                  ["ticks", "nice", "copy"], ["ticks_o:2"], ["ticks_o:1", "format_o:100"], ["ticks_o:100", "nice"],
                                  ["format_o:3", "ticks_o:2", "copy"], ["ticks_o:2", "redomain"], ["sibling"], ["ticks", "sibling"], ["sibling", "nice"]])
                r = ticks_record(d0, d1, m, pre=pre)
                if r is not None:
                    r["m"] = mm
                    recs.append(r)
    elif mode == "map":
        grid = job.get("grid", 4)
        vals = list(range(-grid, grid + 1))
        combos = []
        for a, b in itertools.product(vals, vals):
            if a == b:
                continue
            for r0, r1 in job.get("ranges", [[0, 1], [1, 0], [-3, 5], [2, 2], [6, -6]]):
                combos.append((a, b, r0, r1))
        combos = combos[job.get("offset", 0)::job.get("stride", 1)]
        for (a, b, r0, r1) in combos:
            for x in vals + [grid + 3, -grid - 5]:
                e_d = rng.choice(range(-6, 10))
                e_r = rng.choice(range(-6, 10))
                clamp = 1 if rng.random() < 0.3 else 0
                recs.append(map_record(a, b, x, x + rng.choice([1, 2, 5]), e_d, r0, r1, e_r, clamp, rng.randint(-8, 8)))
        for _ in range(job.get("count", 0)):
            recs.append(mapf_record(rng))
    elif mode == "hist":
        for h in job.get("histories", []):
            recs.append(play_hist(h, DOMS, RNGS))
        for _ in range(job.get("count", 0)):
            h, doms, rngs = random_hist(rng)
            recs.append(play_hist(h, doms, rngs))
    json.dump({"records": recs, "discarded": disc}, sys.stdout)


if __name__ == "__main__":
    main()
