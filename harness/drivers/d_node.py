# -*- coding: utf-8 -*-
"""Driver for the node heap conformance layer (spec/NodeHeap.tla, spec/NodeTrace.tla): call histories on real
labella.node.Node objects.  Coordinates travel as integers in quarter units; the code sees value / 4 (int or float).

stdin : {"seed", "histories": [[{"a","n","x","y"}, ...], ...], "count": n random histories}
events: N (x = ideal, y = width) | S n (x = stub width) | R n | M n (x = position) | I n | C n        (n = node id, creation order)
"""
import json
import random
import sys
from fractions import Fraction

from labella.node import Node


def num(v4):
    f = Fraction(v4, 4)
    return int(f) if f.denominator == 1 else float(f)


def q(v, unit):
    f = Fraction(v) * unit
    if f.denominator != 1:
        raise ValueError("off the lattice: %r" % (v,))
    return int(f)


def observe(nodes, idx):
    out = []
    for nd in nodes:
        out.append({"stub": 1 if nd.isStub() else 0, "path": [idx.get(id(x), 0) for x in nd.getPathToRoot()],
                    "root": idx.get(id(nd.getRoot()), 0), "plen4": q(nd.getPathToRootLength(), 4),
                    "left8": q(nd.currentLeft(), 8), "right8": q(nd.currentRight(), 8),
                    "ileft8": q(nd.idealLeft(), 8), "iright8": q(nd.idealRight(), 8),
                    "disp4": q(nd.displacement(), 4), "layer": nd.getLayerIndex(),
                    "cur4": q(nd.currentPos, 4), "ideal4": q(nd.idealPos, 4), "w4": q(nd.width, 4)})
        # the reversed path must be the same walk
        if [id(x) for x in nd.getPathFromRoot()] != [id(x) for x in reversed(nd.getPathToRoot())]:
            out[-1]["path"] = [-1]
    return out


def play(h, rng):
    nodes = []
    idx = {}
    rec = {"ev": []}
    for e in h:
        a, n, x = e["a"], e.get("n", 0), e.get("x", 0)
        if a == "N":
            nodes.append(Node(num(x), num(e["y"]), {"id": len(nodes) + 1}))
        elif a == "S":
            nodes.append(nodes[n - 1].createStub(num(x)))
        elif a == "R":
            nodes[n - 1].removeStub()
        elif a == "M":
            nodes[n - 1].currentPos = num(x)
        elif a == "I":
            nodes[n - 1].moveToIdealPosition()
        elif a == "C":
            nodes.append(nodes[n - 1].clone())
        idx = {id(nd): i + 1 for i, nd in enumerate(nodes)}
        pair = {"a": 0, "b": 0, "buf4": 0, "pos4": 0, "dist8": 0, "ovl": 0, "ovlpt": 0, "before8": 0, "after8": 0}
        if len(nodes) >= 1:
            ia, ib = rng.randrange(len(nodes)), rng.randrange(len(nodes))
            buf4 = rng.choice([0, 0, 2, 4, 12])
            pos4 = rng.choice([nodes[ia].currentPos * 4 + d for d in (0, 2, -2)] + [q(nodes[ia].currentLeft(), 4) if (Fraction(nodes[ia].currentLeft()) * 4).denominator == 1 else 0])
            pos4 = int(pos4)
            A, B = nodes[ia], nodes[ib]
            buf = num(buf4) if buf4 else rng.choice([None, 0])
            pair = {"a": ia + 1, "b": ib + 1, "buf4": buf4, "pos4": pos4, "dist8": q(A.distanceFrom(B), 8),
                    "ovl": 1 if A.overlapWithNode(B, buf) else 0, "ovlpt": 1 if A.overlapWithPoint(num(pos4)) else 0,
                    "before8": q(A.positionBefore(B, buf), 8), "after8": q(A.positionAfter(B, buf), 8)}
        rec["ev"].append({"a": a, "n": n, "x": x, "y": e.get("y", 0), "obs": observe(nodes, idx), "pair": pair})
    return rec


def random_history(rng):
    h = []
    n = 0
    for _ in range(rng.randint(3, 25)):
        a = rng.choice(["N", "N", "S", "S", "S", "R", "M", "M", "I", "C"]) if n else "N"
        if a in ("N", "S", "C") and n >= 40:
            continue
        if a == "N":
            h.append({"a": "N", "n": 0, "x": rng.randint(-40, 400) * 2, "y": rng.choice([2, 4, 6, 14, 40, 81])})
            n += 1
        elif a == "S":
            h.append({"a": "S", "n": rng.randint(1, n), "x": rng.choice([0, 4, 4, 10]), "y": 0})
            n += 1
        elif a == "C":
            h.append({"a": "C", "n": rng.randint(1, n), "x": 0, "y": 0})
            n += 1
        elif a == "M":
            h.append({"a": "M", "n": rng.randint(1, n), "x": rng.randint(-100, 500) * 2, "y": 0})
        else:
            h.append({"a": a, "n": rng.randint(1, n), "x": 0, "y": 0})
    return h


def main():
    job = json.load(sys.stdin)
    rng = random.Random(job.get("seed", 0))
    recs = [play(h, rng) for h in job.get("histories", [])]
    for _ in range(job.get("count", 0)):
        recs.append(play(random_history(rng), rng))
    json.dump({"records": recs}, sys.stdout)


if __name__ == "__main__":
    main()
