# -*- coding: utf-8 -*-
"""Driver for C07-C11 (and the export part of C18): builds timelines with labella.timeline,
exports SVG and TikZ, and parses both documents into one abstract drawing record each.

stdin : {"seed", "mode": "draw"|"total"|"hist", "count", ...}
All coordinates are projected to integers x 1e5 (U5); strings that must agree exactly are kept as strings.
"""
import copy
import datetime as dt
import hashlib
import json
import random
import re
import sys
import xml.etree.ElementTree as ET
from fractions import Fraction

import guard
from labella.scale import LinearScale, TimeScale
from labella.timeline import TimelineSVG, TimelineTex

EPOCH = dt.datetime(1970, 1, 1)
U5 = 100000


def q5(v):
    return int(round(Fraction(v) * U5))


def tproj(t):
    d = t - EPOCH
    return [d.days, d.seconds * 1000 + d.microseconds // 1000, d.microseconds % 1000]


def as_datetime(v):
    """The instant a caller means by a date / datetime value (C07: 'exactly as supplied')."""
    if isinstance(v, dt.datetime):
        return v
    if isinstance(v, dt.date):
        return dt.datetime(v.year, v.month, v.day)
    if isinstance(v, dt.time):
        # a time of day stands for that time TODAY (documented); the run is discarded if the date changes while it lasts
        return dt.datetime.combine(TODAY, v)
    raise TypeError(v)


TODAY = dt.date.today()


# ------------------------------------------------------------------ parsers
NUM = r"(-?\d+(?:\.\d+)?(?:e-?\d+)?)"


def parse_rgb(style, key):
    m = re.search(key + r":\s*rgb\((\d+), (\d+), (\d+)\)", style or "")
    return [int(m.group(1)), int(m.group(2)), int(m.group(3))] if m else None


def parse_translate(s):
    m = re.match(r"translate\(" + NUM + r", " + NUM + r"\)", s or "")
    return (m.group(1), m.group(2)) if m else None


def parse_path(d):
    toks = d.split(" ")
    segs = []
    i = 0
    while i < len(toks):
        op = toks[i]
        n = {"M": 2, "L": 2, "C": 6}[op]
        segs.append([op] + toks[i + 1:i + 1 + n])
        i += 1 + n
    return segs


def parse_svg(svg):
    root = ET.fromstring(svg)
    main = [g for g in root.iter("g") if g.get("class") == "main-layer"][0]
    D = {"axis": None, "ticks": [], "dots": [], "links": [], "boxes": []}
    line = [l for l in main.iter("line") if l.get("class") == "timeline"][0]
    D["axis"] = {"x2": line.get("x2"), "y2": line.get("y2")}
    for g in main.iter("g"):
        if g.get("class") == "tick":
            tr = parse_translate(g.get("transform"))
            D["ticks"].append({"tr": tr, "text": g.find("text").text})
    for c in main.iter("circle"):
        D["dots"].append({"cx": c.get("cx"), "cy": c.get("cy"), "r": c.get("r"), "rgb": parse_rgb(c.get("style"), "fill")})
    for p in main.iter("path"):
        D["links"].append({"segs": parse_path(p.get("d")), "rgb": parse_rgb(p.get("style"), "stroke")})
    for g in main.iter("g"):
        if g.get("class") == "label-g":
            tr = parse_translate(g.get("transform"))
            rect = g.find("rect")
            text = g.find("text")
            D["boxes"].append({"tr": tr, "w": rect.get("width"), "h": rect.get("height"),
                               "bg": parse_rgb(rect.get("style"), "fill"), "border": parse_rgb(rect.get("style"), "stroke"),
                               "text": None if text is None else text.text,
                               "textrgb": None if text is None else parse_rgb(text.get("style"), "fill")})
    return D


def parse_tex(tex):
    D = {"axis": None, "ticks": [], "dots": [], "links": [], "boxes": []}
    colors = dict(re.findall(r"\\definecolor\{(\w+)\}\{HTML\}\{(\w+)\}", tex))
    texts = dict(re.findall(r"\\def\\text(\w+)\{(.*)\}", tex))
    m = re.search(r"% axis\n\\begin\{scope\}\n\\draw\[[^\]]*\] \(0, 0\) -- \((-?\d+), (-?\d+)\);", tex)
    D["axis"] = {"x2": m.group(1), "y2": m.group(2)}
    for a, b, t in re.findall(r"\\begin\{scope\}\[shift=\{\((-?\d+), (-?\d+)\)\}\]\n\\draw\[[^\]]*\] [^\n]*\nnode\[anchor=\w+\] \{([^}]*)\};", tex):
        D["ticks"].append({"tr": (a, b), "text": t})
    link_block = tex[tex.index("% link layer"):tex.index("% label layer")]
    cur = None
    for mm in re.finditer(r"\\draw\[color=linkColor(\w+), [^\]]*\] \(" + NUM + ", " + NUM + r"\) (?:\.\. controls\n\(" + NUM + ", " + NUM + r"\) and \(" + NUM + ", " + NUM + r"\) \.\. \(" + NUM + ", " + NUM + r"\)|-- \(" + NUM + ", " + NUM + r"\));", link_block):
        name = mm.group(1)
        if cur is None or cur["name"] != name:
            cur = {"name": name, "segs": [["M", mm.group(2), mm.group(3)]], "starts": [], "hex": colors.get("linkColor" + name)}
            D["links"].append(cur)
        cur["starts"].append([mm.group(2), mm.group(3)])
        if mm.group(4) is not None:
            cur["segs"].append(["C"] + [mm.group(k) for k in range(4, 10)])
        else:
            cur["segs"].append(["L", mm.group(10), mm.group(11)])
    label_block = tex[tex.index("% label layer"):tex.index("% dots")]
    for mm in re.finditer(r"\\begin\{scope\}\[shift=\{\((-?\d+), (-?\d+)\)\}\]\n\\(fill|draw)\[([^\]]*)\]\n\(0, 0\) rectangle \(" + NUM + ", " + NUM + r"\) node\[[^\]]*text=labelTextColor(\w+)\] \{\\strut (\\text(\w+))?\};", label_block):
        name = mm.group(7)
        opts = mm.group(4)
        border = None
        mb = re.search(r"borderColor(\w+)", opts)
        if mb:
            border = colors.get("borderColor" + mb.group(1))
        mbg = re.search(r"labelBgColor(\w+)", opts)
        D["boxes"].append({"tr": (mm.group(1), mm.group(2)), "w": mm.group(5), "h": mm.group(6), "name": name,
                           "bg": colors.get("labelBgColor" + mbg.group(1)) if mbg else None, "border": border,
                           "text": texts.get(mm.group(9)) if mm.group(8) else None,
                           "textrgb": colors.get("labelTextColor" + name)})
    for size, name, x, y in re.findall(r"minimum size=([\d.]+)bp, \nfill=dotColor(\w+)\] at \(" + NUM + ", " + NUM + r"\) \{\};", tex):
        D["dots"].append({"x": x, "y": y, "size": size, "hex": colors.get("dotColor" + name)})
    return D


def frame_of(backend, doc):
    """Document frame and tick decorations (spec/Frame.tla), best effort: a document that no longer has this shape gives ok = 0
    (specification drift, never a verdict)."""
    try:
        if backend == "svg":
            root = ET.fromstring(doc)
            outer = root[0]
            main = [g for g in root.iter("g") if g.get("class") == "main-layer"][0]
            otr, mtr = parse_translate(outer.get("transform")), parse_translate(main.get("transform"))
            ticks = []
            for g in main.iter("g"):
                if g.get("class") == "tick":
                    ln, tx = g.find("line"), g.find("text")
                    m = re.search(r"text-anchor:\s*(\w+)", tx.get("style") or "")
                    ticks.append({"x2": sval(ln.get("x2")), "y2": sval(ln.get("y2")), "tx": sval(tx.get("x")), "ty": sval(tx.get("y")),
                                  "anchor": m.group(1) if m else ""})
            fr = {"ok": 1, "w5": sval(root.get("width")), "h5": sval(root.get("height")), "outer": [sval(otr[0]), sval(otr[1])],
                  "main": [sval(mtr[0]), sval(mtr[1])]}
        else:
            mb = re.search(r"border=\{" + NUM + "bp " + NUM + "bp " + NUM + "bp " + NUM + r"bp\}", doc)
            mo = re.search(r"% shift for the margin\n\\begin\{scope\}\[shift=\{\((-?\d+), (-?\d+)\)\}\]", doc)
            mm = re.search(r"% main layer\n\\begin\{scope\}\[shift=\{\((-?\d+), (-?\d+)\)\}\]", doc)
            ticks = [{"to": t[0], "anchor": t[1]} for t in
                     re.findall(r"\\draw\[[^\]]*\] \([^)]*\) -- \(([^)]*)\)\nnode\[anchor=(\w+)\]", doc)]
            fr = {"ok": 1, "border": [sval(mb.group(k)) for k in range(1, 5)], "outer": [sval(mo.group(1)), sval(mo.group(2))],
                  "main": [sval(mm.group(1)), sval(mm.group(2))]}
        fr["nticks"] = len(ticks)
        fr["uniform"] = 1 if all(t == ticks[0] for t in ticks) else 0
        fr["tick"] = ticks[0] if ticks else ({"x2": 0, "y2": 0, "tx": 0, "ty": 0, "anchor": ""} if backend == "svg" else {"to": "", "anchor": ""})
        return fr
    except Exception:
        return {"ok": 0}


# ------------------------------------------------------------------ datasets
TEXT_POOL = ["alpha", "Beta <b>", "x & y", "\"quoted\"", "naïve", "日本", "a'b", "émile", "tick>tock", "co-op", "Ω mega", "plain text",
             "wait\u2026", "5\u00a0km", "\ufb01ne", "\u00bd cup", "x\u00b2", "\u00b5m", "n\u00ba 5"]


def _unaccented(c):
    import unicodedata
    dec = unicodedata.decomposition(c)
    return (dec == "" or dec.startswith("<")) and unicodedata.combining(c) == 0
COLORS = ["#222", "#1f77b4", "#ABC", "#a1B2c3", "fff", "0f0f0f"]


GAPFRAC = [0.12]
TIMEVALS = [False]


def make_dataset(rng, kind, n=None):
    n = n or (rng.randint(1, 12) if rng.random() < 0.9 else rng.randint(27, 45))      # > 26 items: two-letter TeX names
    data = []
    if kind == "linear":
        base = rng.choice([0, 100, -50, 1000])
        span = rng.choice([1, 10, 100, 1000])
        for i in range(n):
            data.append({"time": base + rng.randint(0, span * 10) / 10.0})
    else:
        start = dt.datetime(rng.choice([1950, 1999, 2016, 2023, 2024]), rng.randint(1, 12), rng.randint(1, 28))
        span = rng.choice([dt.timedelta(hours=6), dt.timedelta(days=3), dt.timedelta(days=45), dt.timedelta(days=400), dt.timedelta(days=4000)])
        # datetime values carry microseconds ("the datum's time exactly as supplied"): short spans keep them
        micro = rng.random() < 0.2
        if micro:
            span = rng.choice([dt.timedelta(milliseconds=10), dt.timedelta(milliseconds=137), dt.timedelta(seconds=2), dt.timedelta(minutes=3)])
            start += dt.timedelta(hours=rng.randint(0, 23), minutes=rng.randint(0, 59), seconds=rng.randint(0, 59), microseconds=rng.randint(0, 999999))
        # wall-clock times around the daylight-saving changes of the zones of C18 (inside a spring-forward gap such a value does
        # not exist as a local time, in a fall-back hour it exists twice): naive values must be taken as they are
        gap = (not micro) and rng.random() < GAPFRAC[0]
        if gap:
            anchor = rng.choice([dt.datetime(2024, 3, 10, 2, 30), dt.datetime(2011, 3, 13, 2, 30), dt.datetime(2024, 11, 3, 1, 30),
                                 dt.datetime(2024, 10, 6, 2, 15), dt.datetime(2011, 10, 2, 2, 10), dt.datetime(2024, 4, 7, 1, 45),
                                 dt.datetime(2024, 9, 29, 3, 0), dt.datetime(2011, 9, 25, 3, 0), dt.datetime(2024, 4, 7, 3, 15)])
            start = anchor - dt.timedelta(minutes=rng.choice([0, 10, 45, 90]))
            span = dt.timedelta(minutes=rng.choice([25, 40, 55, 120]))
        for i in range(n):
            t = start + span * rng.random()
            if gap and i == 0:
                t = anchor
            if not micro:
                t = t.replace(microsecond=(t.microsecond // 1000) * 1000)
            form = rng.choice(["datetime", "datetime", "date"]) if kind == "time" and not micro and not gap else "datetime"
            if form == "date":
                data.append({"time": t.date()})
            else:
                if rng.random() < 0.3 and not micro and not gap:
                    t = t.replace(hour=0, minute=0, second=0, microsecond=0)
                data.append({"time": t})
    if kind == "time" and TIMEVALS[0] and rng.random() < 0.1:
        # datetime.time values (with microseconds), all within one day
        h0 = rng.randint(0, 20)
        data = [{"time": dt.time(rng.randint(h0, h0 + 3), rng.randint(0, 59), rng.randint(0, 59), rng.choice([0, 0, 750000, rng.randint(0, 999999)]))}
                for _ in range(n)]
    for i, d in enumerate(data):
        d["id"] = i + 1
        d["width"] = rng.choice([10, 20, 37.5, 60, 25])
        if rng.random() < 0.8:
            d["text"] = "%s %d" % (rng.choice(TEXT_POOL), i + 1)
        elif rng.random() < 0.25:
            d["width"] = 0                   # a bare marker: explicit width 0, no text
    if len(data) >= 2 and rng.random() < 0.1:
        # one datum entered twice (same time, text and width; it is still two data: two dots, two links, two boxes)
        twin = dict(rng.choice(data))
        twin["id"] = len(data) + 1
        data.append(twin)
    rng.shuffle(data)
    return data


def make_options(rng, kind, data, ns_min=0):
    direction = rng.choice(["up", "down", "left", "right"])
    lab = {}
    if rng.random() < 0.6:
        lab["maxPos"] = rng.choice([100, 200, 360])
    if rng.random() < 0.15:
        lab["minPos"] = rng.choice([None, None, 10])       # the lower bound switched off (or moved), with or without an upper one
    lab["nodeSpacing"] = rng.choice([3, 3, 4, 6] if ns_min >= 3 else [3, 3, 0, 1, 5])
    if rng.random() < 0.3:
        lab["algorithm"] = rng.choice(["simple", "none", "overlap"])
    o = {"direction": direction, "initialWidth": rng.choice([400, 500, 804]), "initialHeight": rng.choice([400, 300]),
         "layerGap": rng.choice([1, 20, 60, 60]) if ns_min >= 3 else rng.choice([0, 20, 60]),
         "labella": lab, "showTicks": rng.random() < 0.85, "showBorder": rng.random() < 0.3,
         "labelPadding": rng.choice([{"left": 2, "right": 2, "top": 3, "bottom": 2}, {"left": 0, "right": 5, "top": 1, "bottom": 4},
                                     {"left": 8, "right": 8, "top": 2, "bottom": 2}, {"left": 1, "right": 1, "top": 7, "bottom": 6}]),
         "dotRadius": rng.choice([3, 5])}
    if rng.random() < 0.3:
        o["margin"] = rng.choice([{"left": 0, "right": 0, "top": 0, "bottom": 0}, {"left": 35, "right": 5, "top": 12, "bottom": 48}])
    if rng.random() < 0.2:
        # TeX-side options (partial dict: merged with the defaults); none of them is geometry
        o["latex"] = rng.choice([{"tickCross": True}, {"linkThickness": "thin", "axisThickness": "thick"}, {"fontsize": "10pt"},
                                 {"reproducible": True, "tickThickness": "very thin"}, {"preamble": "\\usepackage{lmodern}", "borderThickness": "thin"}])
    colkind = rng.choice(["default", "hex3", "hex6", "list", "func"])
    if colkind == "hex3":
        o["dotColor"] = o["linkColor"] = "#a1f"
    elif colkind == "hex6":
        o["dotColor"] = "#1f77b4"
        o["labelBgColor"] = "aec7e8"
    elif colkind == "list":
        o["dotColor"] = o["linkColor"] = o["labelBgColor"] = list(COLORS)
    elif colkind == "func":
        o["dotColor"] = "FUNC"
    # every colour option can be a constant, a list or a function of the datum
    for key in ("linkColor", "labelBgColor", "labelTextColor", "borderColor"):
        r = rng.random()
        if r < 0.15:
            o[key] = "FUNC"
        elif r < 0.3:
            o[key] = list(COLORS[rng.randint(0, 3):])
    if rng.random() < 0.3 and len(data) >= 1:
        times = [d["time"] for d in data]
        if kind == "linear":
            lo, hi = min(times), max(times)
            o["domain"] = [lo - rng.choice([0, 1, 5]), hi + rng.choice([1, 2, 10])]
        else:
            ts = [as_datetime(t) for t in times]
            o["domain"] = [min(ts) - dt.timedelta(days=rng.choice([0, 1, 30])), max(ts) + dt.timedelta(days=rng.choice([1, 2, 60]))]
    return o


def realise_options(o, kind):
    o = copy.deepcopy({k: v for k, v in o.items()})
    o["scale"] = LinearScale() if kind == "linear" else TimeScale()
    for key in ("dotColor", "linkColor", "labelBgColor", "labelTextColor", "borderColor"):
        if o.get(key) == "FUNC":
            o[key] = (lambda kk: (lambda d: COLORS[(d["id"] + len(kk)) % len(COLORS)]))(key)
    return o


# ------------------------------------------------------------------ drawing records
_EXPORTS = [0]
_MISSING = object()


def fails_once(inner, at):
    """A caller's colour callback that raises on its `at`-th call and works ever after (the lookup table was incomplete,
    the caller catches the KeyError, completes the table and exports the same timeline again)."""
    st = {"armed": True, "calls": 0}

    def f(d):
        st["calls"] += 1
        if st["armed"] and st["calls"] >= at:
            st["armed"] = False
            raise KeyError("colour table has no entry yet")
        return inner(d) if callable(inner) else inner
    return f


def export_both(data, opts, kind):
    """Both back-ends' exports of the same data and options.  Two instances in seven are exports that come AFTER A FAILED ATTEMPT
    on the same timeline object: a colour callback that raises once, or a misspelt layering algorithm in the caller's engine
    options that the caller corrects before trying again.  What is recorded (and judged) is the export that succeeded."""
    out = {}
    _EXPORTS[0] += 1
    retry = _EXPORTS[0] % 7
    for backend, cls in (("svg", TimelineSVG), ("tikz", TimelineTex)):
        d = copy.deepcopy(data)
        o = realise_options(opts, kind)
        wrong = None
        if retry == 0:
            for key in ("linkColor", "dotColor", "labelBgColor"):
                if callable(o.get(key)) or isinstance(o.get(key), str):
                    o[key] = fails_once(o[key], 1 + (_EXPORTS[0] // 7) % 3)
                    break
        elif retry == 1 and isinstance(o.get("labella"), dict):
            wrong = o["labella"].get("algorithm", _MISSING)
            o["labella"]["algorithm"] = "overlapp"
        with guard.limit(900):
            tl = cls(d, o)
            try:
                doc = tl.export()
            except (KeyError, ValueError):
                if retry > 1:
                    raise
                doc = None
            if wrong is not None:
                # the caller corrects the options dict it handed over (the timeline uses that very dict) and exports again
                if wrong is _MISSING:
                    del o["labella"]["algorithm"]
                else:
                    o["labella"]["algorithm"] = wrong
                doc = None
            if doc is None:
                doc = tl.export()
        if isinstance(doc, bytes):
            doc = doc.decode("utf-8")
        out[backend] = (tl, doc, o)
    return out


def layout_of(tl):
    nodes = []
    for n in tl.nodes:
        chain = [int(h.currentPos) for h in n.getPathFromRoot()]
        nodes.append({"id": n.data.data["id"], "layer": int(n.layerIndex), "chain5": [c * U5 for c in chain],
                      "ideal5": q5(n.getRoot().idealPos), "w5": q5(n.w), "h5": q5(n.h), "width5": q5(n.width)})
    return nodes


def sval(s):
    return 0 if s is None else q5(Fraction(s))


def drawing_record(backend, tl, doc, opts, data, kind):
    direction = opts["direction"]
    horiz = direction in ("up", "down")
    mg = opts.get("margin", {"left": 20, "right": 20, "top": 20, "bottom": 20})
    iw = opts["initialWidth"] - mg["left"] - mg["right"]
    ih = opts["initialHeight"] - mg["top"] - mg["bottom"]
    L = iw if horiz else ih
    scale = tl.options["scale"]
    # an explicitly given axis domain is the CALLER's (not what the scale reports after the export); a derived one is read back
    dom = list(opts["domain"]) if opts.get("domain") else scale.domain()
    if kind != "linear":
        dom = [as_datetime(x) for x in dom]
    nodes = layout_of(tl)
    by_id = {d["id"]: d for d in data}
    nodeH = max((n["w5"] if not horiz else n["h5"]) for n in nodes)
    rec = {"kind": "drawing", "backend": backend, "dir": direction, "horiz": 1 if horiz else 0, "L5": L * U5,
           "gap5": q5(opts["layerGap"]), "nodeH5": nodeH, "ns": opts["labella"].get("nodeSpacing", 3),
           "pad": opts["labelPadding"], "scale": kind, "showTicks": 1 if opts["showTicks"] else 0,
           "nodes": nodes, "n": len(data)}
    # data, in the order of tl.nodes
    drec = []
    for n in nodes:
        d = by_id[n["id"]]
        e = {"id": d["id"], "w5": q5(d["width"]), "h5": q5(13.0), "text": d.get("text") or "", "hastext": 1 if d.get("text") else 0,
             # "ascii": the text has no accented character (no canonical decomposition, no combining mark), so the conversion
             # for TeX must leave it exactly as it is - plain ASCII, but also CJK, Greek, compatibility characters
             "ascii": 1 if all(ord(c) < 128 or _unaccented(c) for c in (d.get("text") or "")) else 0}
        if kind == "linear":
            e["t3"] = int(round(Fraction(d["time"]) * 1000))
        else:
            e["t"] = tproj(as_datetime(d["time"]))
        drec.append(e)
    rec["data"] = drec
    if kind == "linear":
        rec["dom3"] = [int(round(Fraction(x) * 1000)) for x in dom]
    else:
        rec["domt"] = [tproj(x) for x in dom]
    ticks_src = list(scale.ticks()) if opts["showTicks"] else []
    if backend == "svg":
        P = parse_svg(doc)
        rec["axis5"] = sval(P["axis"]["x2"] if horiz else P["axis"]["y2"])
        rec["axis_other5"] = sval(P["axis"]["y2"] if horiz else P["axis"]["x2"])
        rec["ticks"] = [{"pos5": sval(t["tr"][0] if horiz else t["tr"][1]), "other5": sval(t["tr"][1] if horiz else t["tr"][0]),
                         "text": t["text"] or ""} for t in P["ticks"]]
        rec["dots"] = [{"pos5": sval(c["cx"] if horiz else c["cy"]), "other5": sval(c["cy"] if horiz else c["cx"]),
                        "rgb": c["rgb"] or [-1, -1, -1], "size5": 2 * sval(c["r"])} for c in P["dots"]]
        rec["links"] = [{"rgb": l["rgb"] or [-1, -1, -1], "ops": "".join(s[0] for s in l["segs"]),
                         "pts": [[s[k] for k in range(1, len(s))] for s in l["segs"]],
                         "pts5": [[q5(Fraction(x)) for x in s[1:]] for s in l["segs"]], "cont": 1} for l in P["links"]]
        rec["boxes"] = [{"x5": sval(b["tr"][0]), "y5": sval(b["tr"][1]), "w5": sval(b["w"]), "h5": sval(b["h"]), "ws": b["w"], "hs": b["h"],
                         "text": b["text"] or "", "bg": b["bg"] or [-1, -1, -1], "border": b["border"] or [-1, -1, -1],
                         "textrgb": b["textrgb"] or [-1, -1, -1]} for b in P["boxes"]]
    else:
        P = parse_tex(doc)

        def hx(h):
            if not h:
                return [-1, -1, -1]
            try:
                if len(h) != 6:
                    raise ValueError(h)
                return [int(h[0:2], 16), int(h[2:4], 16), int(h[4:6], 16)]
            except ValueError:
                return [-2, -2, -2]          # not a 6-digit code: a malformed TeX colour definition is data for the verdict
        rec["axis5"] = sval(P["axis"]["x2"] if horiz else P["axis"]["y2"])
        rec["axis_other5"] = sval(P["axis"]["y2"] if horiz else P["axis"]["x2"])
        rec["ticks"] = [{"pos5": sval(t["tr"][0] if horiz else t["tr"][1]), "other5": sval(t["tr"][1] if horiz else t["tr"][0]),
                         "text": t["text"] or ""} for t in P["ticks"]]
        rec["dots"] = [{"pos5": sval(c["x"] if horiz else c["y"]), "other5": sval(c["y"] if horiz else c["x"]),
                        "rgb": hx(c["hex"]), "size5": sval(c["size"])} for c in P["dots"]]
        links = []
        for l in P["links"]:
            # continuity: every \draw starts where the previous one ended
            ends = [s[-2:] for s in l["segs"]]
            cont = 1 if all(l["starts"][k] == ends[k] for k in range(len(l["starts"]))) else 0
            links.append({"rgb": hx(l["hex"]), "ops": "".join(s[0] for s in l["segs"]),
                          "pts": [[s[k] for k in range(1, len(s))] for s in l["segs"]],
                          "pts5": [[q5(Fraction(x)) for x in s[1:]] for s in l["segs"]], "cont": cont})
        rec["links"] = links
        rec["boxes"] = [{"x5": sval(b["tr"][0]), "y5": sval(b["tr"][1]), "w5": sval(b["w"]), "h5": sval(b["h"]), "ws": b["w"], "hs": b["h"],
                         "text": b["text"] or "", "bg": hx(b["bg"]), "border": hx(b["border"]), "textrgb": hx(b["textrgb"])} for b in P["boxes"]]
    # ticks of the scale (public API) paired with the drawn ticks
    tk = []
    try:
        fmt = scale.tickFormat()
    except Exception:
        fmt = None
    for t in ticks_src:
        if kind == "linear":
            tk.append({"v3": int(round(Fraction(float(t)) * 1000))})
        else:
            # "fmt": the formatted value of this tick's position, by the scale's own formatter (one call per tick)
            try:
                f = fmt(t)
                f = f if isinstance(f, str) else "<not a string>"
            except Exception:
                f = "<formatter failed>"
            tk.append({"t": tproj(t), "civ": [t.year, t.month, t.day, t.isoweekday() % 7, t.hour, t.minute, t.second], "fmt": f})
    rec["tickvals"] = tk
    if kind != "linear":
        # the drawn tick texts cut into number and word tokens (TLC checks that every token names a field of the tick's instant)
        for t in rec["ticks"]:
            t["nums"] = [int(x) for x in re.findall(r"\d+", t["text"])][:8]
            t["words"] = [w.lower() for w in re.findall(r"[^\W\d_]+", t["text"])][:8]
    if kind == "linear":
        step = (float(ticks_src[1]) - float(ticks_src[0])) if len(ticks_src) >= 2 else 1.0
        for t in tk:
            t["tol3"] = max(1, int(abs(step)))          # a thousandth of the step (x 1000), at least the rounding unit
        for t in rec["ticks"]:
            try:
                t["textv3"] = int(round(Fraction(float(t["text"])) * 1000))
            except ValueError:
                t["textv3"] = -(10 ** 9)
    rec["sha"] = hashlib.sha256(doc.encode("utf-8")).hexdigest()
    rec["opt"] = {"ml": mg["left"], "mr": mg["right"], "mt": mg["top"], "mb": mg["bottom"], "iw": opts["initialWidth"],
                  "ih": opts["initialHeight"], "dot5": q5(opts["dotRadius"])}
    rec["frame"] = frame_of(backend, doc)
    return rec


def long_layer_case(rng, ns_min):
    """More than 700 data with distinct texts in ONE layer on a long axis (clusters of three simultaneous events): layers longer
    than any fixed chunk size, TeX names of three letters' worth of labels."""
    n = 720
    start = dt.datetime(2000, 1, 1)
    data = []
    for i in range(n):
        data.append({"time": start + dt.timedelta(days=7 * (i // 3), hours=i % 3), "width": 5, "id": i + 1, "text": "e%d" % i})
    rng.shuffle(data)
    opts = make_options(rng, "time", data[:3], ns_min=ns_min)
    opts.pop("domain", None)
    opts.pop("margin", None)
    # (coordinates x 1e5 must stay below 2^30: an axis of 10 000 units; 240 clusters of three 12-unit slots, 41 units apart)
    opts["direction"] = rng.choice(["up", "down"])
    opts["labelPadding"] = {"left": 2, "right": 2, "top": 3, "bottom": 2}
    opts["labella"] = {"nodeSpacing": 3, "algorithm": "none"}
    opts["initialWidth"] = opts["initialHeight"] = 10040
    return data, opts, "time"


def pinned_cases(rng, ns_min):
    """Fixed datasets that are drawn on every run: the last datum lies a fraction of a millisecond after a tick boundary of
    the data-derived (niced) axis domain - seconds, minutes, hours and days."""
    out = []
    for first, last in ((dt.datetime(2021, 6, 1, 10, 0, 0, 250000), dt.datetime(2021, 6, 1, 10, 3, 0, 900)),
                        (dt.datetime(2021, 6, 1, 10, 0, 0, 250000), dt.datetime(2021, 6, 1, 13, 0, 0, 999)),
                        (dt.datetime(2021, 6, 1, 1, 0, 0), dt.datetime(2021, 6, 3, 0, 0, 0, 400)),
                        (dt.datetime(2021, 6, 1, 10, 0, 1, 500000), dt.datetime(2021, 6, 1, 10, 0, 9, 7))):
        data = [{"time": first + (last - first) * f, "width": 30, "id": i + 1, "text": "p%d" % i} for i, f in enumerate((0, 0.31, 0.64, 1))]
        data[-1]["time"] = last
        opts = make_options(rng, "time", data, ns_min=ns_min)
        opts.pop("domain", None)
        out.append((data, opts, "time"))
    out.append(long_layer_case(rng, ns_min))
    return out


def touching_case(rng, ns_min):
    """Neighbours that just fit side by side at their data positions - box next to box with less than a unit between them, at
    fractional pixel positions - but NOT at the label spacing: they have to be pushed apart (rounding alone would make the
    boxes meet).  A linear scale whose domain equals its range maps data values to pixels one to one."""
    direction = rng.choice(["up", "down"])
    opts = make_options(rng, "linear", [], ns_min=ns_min)
    opts.pop("domain", None)
    opts.pop("margin", None)
    opts["direction"] = direction
    opts["labella"] = {"nodeSpacing": max(3, opts["labella"].get("nodeSpacing", 3))}
    L = opts["initialWidth"] - 40
    opts["domain"] = [0, L]
    pad = opts["labelPadding"]["left"] + opts["labelPadding"]["right"]
    data = []
    x = 40.6
    for k in range(rng.randint(1, 3)):
        w1, w2 = rng.choice([50, 51, 37.5]), rng.choice([50, 51, 20])
        d = (w1 + pad + w2 + pad) / 2.0 + rng.choice([0.1, 0.3, 0.7])
        data.append({"time": x, "width": w1, "id": len(data) + 1, "text": "l%d" % k})
        data.append({"time": x + d, "width": w2, "id": len(data) + 1, "text": "r%d" % k})
        x += d + w2 + pad + 30.3
    return [dd for dd in data if dd["time"] < L - 60], opts, "linear"


def draw_case(rng, ns_min=0, kind=None):
    if kind is None and rng.random() < 0.06:
        data, opts, k = touching_case(rng, ns_min)
        if len(data) >= 2:
            return data, opts, k
    kind = kind or rng.choice(["linear", "time", "time"])
    data = make_dataset(rng, kind)
    opts = make_options(rng, kind, data, ns_min=ns_min)
    if rng.random() < 0.03:
        # a crowd: well over a hundred narrow labels in one layer (C11's envelope: clusters up to 200)
        n = rng.choice([110, 140, 170])
        data = [{"time": (10.0 + 0.01 * (i % 7)) if kind == "linear" else dt.datetime(2020, 5, 17, 12, i % 50), "width": 4, "id": i + 1}
                for i in range(n)]
        opts["labella"] = {"nodeSpacing": opts["labella"].get("nodeSpacing", 3)}
        opts["initialWidth"] = opts["initialHeight"] = 2400
        opts.pop("domain", None)
    return data, opts, kind


# ------------------------------------------------------------------ C11: descriptors
import itertools

D_COUNTS = [1, 2, 5, 40]
D_TTYPES = ["num", "date", "time", "datetime"]
D_ARRS = ["distinct", "equal", "unsorted"]
D_SPANS = ["zero", "ms3", "ms7", "subsec", "s1", "day", "monthend", "leap", "yearend", "months31", "leapyears", "century"]
D_OPTS = ["omitted", "empty", "partial"]
D_DIRS = ["up", "down", "left", "right"]
D_ALGS = ["overlap", "simple", "none"]
D_BOUNDS = ["none", "max", "zero", "maxonly", "narrow"]


def descriptors():
    for c, tt, ar, sp, op, di, al, bo, ti in itertools.product(D_COUNTS, D_TTYPES, D_ARRS, D_SPANS, D_OPTS, D_DIRS, D_ALGS,
                                                               D_BOUNDS, [0, 1]):
        if tt == "num" and op != "partial":
            continue
        if op != "partial" and (di, al, bo, ti) != ("right", "overlap", "none", 1):
            continue  # without options these dimensions do not exist
        yield {"count": c, "ttype": tt, "arr": ar, "span": sp, "opts": op, "dir": di, "alg": al, "bounds": bo, "ticks": ti,
               "cluster": "small"}


SPAN_MS = {"zero": 0, "ms3": None, "ms7": None, "s1": 1000, "day": 20 * 3600 * 1000, "monthend": None, "leap": None, "yearend": None,
           "century": None}


def concretise(desc, rng):
    n = desc["count"]
    sp = desc["span"]
    if sp == "ms3":
        # shorter than the default tick count in milliseconds: one tick per millisecond
        start = dt.datetime(rng.choice([1999, 2023]), rng.randint(1, 12), rng.randint(1, 28), rng.randint(0, 23), rng.randint(0, 59), 59,
                            rng.choice([0, 123, 995]) * 1000)
        span = dt.timedelta(milliseconds=rng.choice([2, 3, 4, 5, 6]))
    elif sp == "ms7":
        start = dt.datetime(rng.choice([1999, 2023]), rng.randint(1, 12), rng.randint(1, 28), rng.randint(0, 23), 59, 59, 990000)
        span = dt.timedelta(milliseconds=rng.choice([7, 8, 9]))
    elif sp == "monthend":
        mth = rng.choice([1, 3, 5, 7, 8, 10, 12, 4, 6, 2])
        start = dt.datetime(rng.choice([2023, 2024, 1999]), mth, 27, rng.randint(0, 23))
        span = dt.timedelta(days=rng.choice([5, 6, 9]))
    elif sp == "leap":
        start = dt.datetime(rng.choice([2024, 2000, 1996]), 2, 27, 3)
        span = dt.timedelta(days=rng.choice([3, 4, 12]))
    elif sp == "yearend":
        start = dt.datetime(rng.choice([1999, 2023, 2099]), 12, 29, 1)
        span = dt.timedelta(days=rng.choice([4, 6, 40]))
    elif sp == "subsec":
        # a few hundred milliseconds to a few seconds, ends NOT aligned to the tick step
        start = dt.datetime(rng.choice([1960, 2024]), rng.randint(1, 12), rng.randint(1, 28), rng.randint(0, 23), rng.randint(0, 59),
                            rng.randint(0, 59), rng.choice([13, 120, 377, 905]) * 1000)
        span = dt.timedelta(milliseconds=rng.choice([58, 340, 1390, 2470, 7300]))
    elif sp == "months31":
        # month-level ticks; the LAST datum sits on a day the following month does not have, with a time of day
        y = rng.choice([1999, 2023, 2024])
        end = dt.datetime(y, rng.choice([1, 3, 5, 8, 10]), 31, rng.randint(1, 23), 30)
        if rng.random() < 0.3:
            end = dt.datetime(y, 1, rng.choice([29, 30]), 7)
        span = dt.timedelta(days=rng.choice([200, 400, 900]))
        start = end - span
    elif sp == "leapyears":
        # year-level ticks; the last datum is a 29 February with a time of day
        end = dt.datetime(rng.choice([1996, 2000, 2024]), 2, 29, rng.randint(1, 23))
        span = dt.timedelta(days=rng.choice([3000, 9000, 20000]))
        start = end - span
    elif sp == "century":
        start = dt.datetime(1900 + rng.randint(0, 50), rng.randint(1, 12), rng.randint(1, 28))
        span = dt.timedelta(days=rng.choice([36525, 50000, 73000]))
    else:
        start = dt.datetime(rng.choice([1950, 2016, 2024]), rng.randint(1, 12), rng.randint(1, 31) if False else rng.randint(1, 28),
                            rng.randint(0, 3), rng.randint(0, 59))
        span = dt.timedelta(milliseconds=SPAN_MS[sp])
    times = []
    for i in range(n):
        f = 0.0 if (desc["arr"] == "equal" or n == 1) else (i / float(n - 1))
        t = start + span * f
        times.append(t.replace(microsecond=(t.microsecond // 1000) * 1000))
    if desc["arr"] == "unsorted":
        rng.shuffle(times)
    data = []
    for i, t in enumerate(times):
        if desc["ttype"] == "num":
            v = (t - EPOCH) / dt.timedelta(milliseconds=1)
            v = round(v / 1000.0, 3) if sp not in ("ms7", "s1") else round((t - start) / dt.timedelta(milliseconds=1) / 1000.0, 4)
        elif desc["ttype"] == "date":
            v = t.date()
        elif desc["ttype"] == "time":
            v = t.time()
        else:
            v = t
        d = {"time": v, "width": rng.choice([20, 37.5, 60]), "id": i + 1}
        if rng.random() < 0.7:
            # any text: ASCII, XML-special, accented (precomposed and combining), CJK, compatibility characters
            d["text"] = ("item %d" % (i + 1)) if rng.random() < 0.5 else "%s %d" % (rng.choice(TEXT_POOL + ["e\u0301te\u0301", "\u0301x", "A\u030a"]), i + 1)
        data.append(d)
    if desc["opts"] == "omitted":
        opts = None
    elif desc["opts"] == "empty":
        opts = {}
    else:
        lab = {"algorithm": desc["alg"]}
        if desc["bounds"] == "max":
            lab["maxPos"] = rng.choice([200, 360])
        elif desc["bounds"] == "narrow":
            lab["minPos"] = 0                                          # a band narrower than a single label
            lab["maxPos"] = rng.choice([15, 30, 45])
        elif desc["bounds"] == "maxonly":
            lab["minPos"] = None                                       # the left wall switched off, an upper bound kept
            lab["maxPos"] = rng.choice([200, 360])
        elif desc["bounds"] == "zero":
            lab["minPos"] = lab["maxPos"] = rng.choice([0, 120])       # an empty band: both bounds given and equal
        opts = {"direction": desc["dir"], "labella": lab, "showTicks": bool(desc["ticks"])}
        if desc["ttype"] == "num":
            opts["scale"] = "LINEAR"
        elif rng.random() < 0.5:
            opts["scale"] = "TIME"
    return data, opts


def cluster_case(size, rng):
    """`size` mutually conflicting labels (one dense cluster) among ~3*size labels in total."""
    start = dt.datetime(2020, 1, 1)
    data = []
    for i in range(size):
        data.append({"time": start + dt.timedelta(days=500, minutes=i), "width": 20, "id": len(data) + 1})
    for i in range(2 * size):
        data.append({"time": start + dt.timedelta(days=rng.randint(0, 1000)), "width": 20, "id": len(data) + 1})
    opts = {"direction": "up", "initialWidth": 60000, "labella": {"algorithm": "none", "maxPos": None}, "scale": "TIME"}
    return data, opts


def big_case(total, rng):
    """`total` labels (the claim goes up to 1000) with one conflict cluster of 100 and an axis long enough for the rest to stay in
    small clusters."""
    start = dt.datetime(2020, 1, 1)
    data = []
    for i in range(100):
        data.append({"time": start + dt.timedelta(days=1500, minutes=i), "width": 20, "id": len(data) + 1, "text": "c%d" % i})
    for i in range(total - 100):
        d = {"time": start + dt.timedelta(days=rng.randint(0, 3000), hours=rng.randint(0, 23)), "width": 20, "id": len(data) + 1}
        if rng.random() < 0.5:
            d["text"] = "item %d" % i
        data.append(d)
    rng.shuffle(data)
    direction = rng.choice(["up", "down", "left", "right"])
    opts = {"direction": direction, "initialWidth": 250000, "initialHeight": 250000, "scale": "TIME",
            "labella": {"algorithm": rng.choice(["overlap", "simple"]), "maxPos": 249000}}
    return data, opts


def total_record(desc, data, opts):
    rec = {"desc": desc, "svg": "ok", "tikz": "ok", "dots5": [], "degenerate": 0, "where": ""}
    import traceback
    for backend, cls in (("svg", TimelineSVG), ("tikz", TimelineTex)):
        d = copy.deepcopy(data)
        o = None
        if opts is not None:
            o = copy.deepcopy({k: v for k, v in opts.items() if k != "scale"})
            if opts.get("scale") == "LINEAR":
                o["scale"] = LinearScale()
            elif opts.get("scale") == "TIME":
                o["scale"] = TimeScale()
        try:
            with guard.limit(900):
                tl = cls(d, o) if opts is not None else cls(d)
                doc = tl.export()
            if backend == "svg":
                P = parse_svg(doc.decode("utf-8"))
                dom = tl.options["scale"].domain()
                rec["degenerate"] = 1 if dom[0] == dom[1] else 0
                if rec["degenerate"]:
                    rec["dots5"] = [sval(c["cx"] if c["cx"] is not None else c["cy"]) for c in P["dots"]]
        except RecursionError:
            rec[backend] = "RecursionError"
        except Exception as ex:
            tb = traceback.extract_tb(sys.exc_info()[2])
            rec[backend] = type(ex).__name__
            rec["where"] = "%s:%s" % (tb[-1].filename.split("/")[-1], tb[-1].name)
    return rec


# ------------------------------------------------------------------ C10: histories over several timelines
import os
import subprocess


def fixed_config(name):
    if name == "c1":
        data = [{"time": dt.date(2016, 1, 5) + dt.timedelta(days=9 * i), "width": 40 + 5 * (i % 3), "text": "a%d" % i} for i in range(8)]
        # several layers (adjacent stubs), engine defaults otherwise
        return data, {"labella": {"maxPos": 200}}
    if name == "c2":
        data = [{"time": dt.datetime(1990 + i, 3, 1, 12, 30), "width": 50, "text": "b%d" % i} for i in range(10)]
        return data, {"direction": "down"}
    if name == "c3":
        data = [{"time": 3.5 * i, "width": 30, "text": "n%d" % i} for i in range(6)]
        return data, {"scale": "LINEAR", "direction": "left"}
    if name == "c5":
        data = [{"time": dt.datetime(2001, 5, 1 + 2 * i), "width": 45, "text": "e%d" % i} for i in range(7)]
        return data, {"domain": [dt.datetime(2001, 4, 1), dt.datetime(2001, 7, 1)], "direction": "down"}
    if name == "c6":
        data = [{"time": dt.datetime(2010, 1, 1) + dt.timedelta(days=40 * i), "width": 45, "text": "f%d" % i} for i in range(9)]
        return data, {"domain": [dt.datetime(2009, 6, 1), dt.datetime(2011, 6, 1)], "initialWidth": 600}
    if name == "c4":
        data = [{"time": dt.datetime(2020, 2, 27) + dt.timedelta(hours=7 * i), "width": 60} for i in range(12)]
        return data, {"direction": "up", "labella": {"maxPos": 300, "lineSpacing": 9, "nodeSpacing": 5, "stubWidth": 3}, "layerGap": 30,
                      "margin": {"left": 5, "right": 45, "top": 0, "bottom": 10},
                      "labelPadding": {"left": 6, "right": 1, "top": 0, "bottom": 4}}
    if name in ("c12", "c13"):
        # the same picture twice, the numbers given as ints (c12) and as floats (c13): 50 and 50.0 are equal, their spellings differ
        num = (lambda v: int(v)) if name == "c12" else (lambda v: float(v))
        data = [{"time": dt.datetime(2015, 5, 1 + 3 * i), "width": num(50), "text": "t%d" % i} for i in range(6)]
        return data, {"initialWidth": num(400), "initialHeight": num(400), "layerGap": num(60),
                      "labelPadding": {"left": num(2), "right": num(2), "top": num(3), "bottom": num(2)}}
    # data-derived domains for which nice() is NOT idempotent (the widened extent picks a coarser tick interval): a timeline
    # that fitted its axis again at a later export would draw another document
    # (c10, c11: two timelines whose data start at the same instant but span 40 s and 2 min - 5-second and 15-second ticks:
    #  whatever one of them leaves behind in module-level state keyed by an instant is found by the other)
    if name in ("c7", "c8", "c9", "c10", "c11"):
        start, span = {"c7": (dt.datetime(2016, 3, 6, 19, 45), dt.timedelta(days=13, seconds=68830)),
                       "c8": (dt.datetime(1999, 11, 26, 15, 26), dt.timedelta(days=37, seconds=9773)),
                       "c9": (dt.datetime(1999, 9, 7, 12, 49), dt.timedelta(seconds=9, milliseconds=194)),
                       "c10": (dt.datetime(2021, 6, 1, 10, 20, 10, 250000), dt.timedelta(seconds=40)),
                       "c11": (dt.datetime(2021, 6, 1, 10, 20, 10, 250000), dt.timedelta(minutes=2))}[name]
        k = {"c7": 6, "c8": 9, "c9": 5, "c10": 6, "c11": 7}[name]
        data = [{"time": start + span * (i / float(k - 1)), "width": 40, "text": "%s%d" % (name, i)} for i in range(k)]
        for d in data:
            d["time"] = d["time"].replace(microsecond=(d["time"].microsecond // 1000) * 1000)
        return data, ({"direction": "up"} if name == "c8" else {})
    raise KeyError(name)


def random_config(seed):
    rng = random.Random(seed)
    data = make_dataset(rng, "time", n=rng.randint(2, 30))
    if rng.random() < 0.5:
        # any span between a second and thirty years (log-uniform)
        t0 = as_datetime(data[0]["time"])
        span = dt.timedelta(seconds=int(10 ** rng.uniform(0, 9)))
        for d in data:
            t = t0 + span * rng.random()
            d["time"] = t.replace(microsecond=(t.microsecond // 1000) * 1000)
        data[0]["time"], data[-1]["time"] = t0, t0 + span
    opts = {"direction": rng.choice(["up", "down", "left", "right"])}
    if rng.random() < 0.5:
        opts["labella"] = {"maxPos": rng.choice([200, 360]), "algorithm": rng.choice(["overlap", "simple"])}
        if rng.random() < 0.5:
            opts["labella"].update(rng.choice([{"lineSpacing": 0}, {"lineSpacing": 7}, {"nodeSpacing": 6}, {"stubWidth": 4, "density": 0.6}]))
    if rng.random() < 0.3:
        opts["layerGap"] = rng.choice([20, 40])
    if rng.random() < 0.4:
        ts = [as_datetime(x["time"]) for x in data]
        opts["domain"] = [min(ts) - dt.timedelta(days=rng.choice([1, 30])), max(ts) + dt.timedelta(days=rng.choice([2, 90]))]
    if rng.random() < 0.3:
        opts["initialWidth"] = rng.choice([500, 700])
    if rng.random() < 0.3:
        opts["margin"] = {"left": rng.choice([0, 30]), "right": 10, "top": rng.choice([5, 25]), "bottom": 15}
    if rng.random() < 0.3:
        opts["labelPadding"] = {"left": rng.choice([0, 4]), "right": 3, "top": rng.choice([1, 5]), "bottom": 2}
    if rng.random() < 0.2:
        opts["dotRadius"] = 5
        opts["showBorder"] = True
    return data, opts


def get_config(name, seed):
    return fixed_config(name) if name.startswith("c") else random_config(seed * 10 + int(name[1:]))


def build(name, seed, backend):
    data, opts = get_config(name, seed)
    o = copy.deepcopy({k: v for k, v in opts.items() if k != "scale"})
    if opts.get("scale") == "LINEAR":
        o["scale"] = LinearScale()
    cls = TimelineSVG if backend == "svg" else TimelineTex
    if not o:
        return cls(copy.deepcopy(data))          # a caller without options passes no options argument at all
    return cls(copy.deepcopy(data), o)


def sha_of(doc):
    if isinstance(doc, str):
        doc = doc.encode("utf-8")
    return hashlib.sha256(doc).hexdigest()


_REF = {}


def fresh_reference(name, seed, backend):
    """The document this configuration produces alone in a FRESH process."""
    key = (name, seed if not name.startswith("c") else 0, backend)
    if key not in _REF:
        p = subprocess.run([sys.executable, "-B", os.path.abspath(__file__)],
                           input=json.dumps({"mode": "ref", "name": name, "cseed": seed, "backend": backend}).encode(),
                           stdout=subprocess.PIPE, stderr=subprocess.PIPE, env=dict(os.environ))
        if p.returncode != 0:
            raise RuntimeError("reference subprocess failed: " + p.stderr.decode()[-500:])
        _REF[key] = json.loads(p.stdout.decode())["sha"]
    return _REF[key]


def play_timelines(h, seed):
    tls = {}
    last = {}
    ev = []
    for k, e in enumerate(h):
        a, i, c = e["a"], e["i"], e["c"]
        rec = {"a": a, "i": i, "c": c}
        if a == "K":
            backend = "svg" if (i + seed + len(c)) % 2 == 0 else "tikz"
            rec["b"] = backend
            try:
                tls[i] = (build(c, seed, backend), c, backend)
            except Exception as ex:
                tls[i] = (None, c, backend)
                rec["err"] = type(ex).__name__
            last[i] = ""
        else:
            tl, c0, backend = tls[i]
            rec.update({"b": backend, "sha": "", "ref": "", "prev": last.get(i, ""), "err": ""})
            try:
                rec["sha"] = sha_of(tl.export())
                rec["ref"] = fresh_reference(c0, seed, backend)
                last[i] = rec["sha"]
            except RecursionError:
                rec["err"] = "RecursionError"
            except Exception as ex:
                rec["err"] = type(ex).__name__
        ev.append(rec)
    return {"ev": ev, "seed": seed}


def random_timelines_history(rng):
    ids = [1, 2, 3, 4][:rng.randint(2, 4)]
    cfgs = ["c1", "c2", "c3", "c4", "c5", "c6", "c7", "c8", "c9", "c10", "c11", "c10", "c11", "c12", "c13", "c12", "c13", "r1", "r2", "r3", "r4", "r5", "r6", "r7", "r8"]
    h = []
    built = set()
    for _ in range(rng.randint(4, 14)):
        if built and rng.random() < 0.55:
            h.append({"a": "E", "i": rng.choice(sorted(built)), "c": ""})
        else:
            i = rng.choice(ids)
            h.append({"a": "K", "i": i, "c": rng.choice(cfgs)})
            built.add(i)
    h.append({"a": "E", "i": rng.choice(sorted(built)), "c": ""})
    # the model logs the configuration of the exported instance: fill it in
    cur = {}
    for e in h:
        if e["a"] == "K":
            cur[e["i"]] = e["c"]
        else:
            e["c"] = cur[e["i"]]
    return h


def main():
    job = json.load(sys.stdin)
    if job["mode"] == "ref":
        tl = build(job["name"], job["cseed"], job["backend"])
        json.dump({"sha": sha_of(tl.export())}, sys.stdout)
        return
    rng = random.Random(job.get("seed", 0))
    mode = job["mode"]
    recs = []
    errors = []
    if mode == "draw":
        GAPFRAC[0] = job.get("gapfrac", 0.12)
        TIMEVALS[0] = bool(job.get("timevals", False))
        cases = pinned_cases(rng, job.get("ns_min", 0)) if job.get("pinned") else []
        for k in range(job["count"]):
            data, opts, kind = cases[k] if k < len(cases) else draw_case(rng, ns_min=job.get("ns_min", 0))
            try:
                both = export_both(data, opts, kind)
                if dt.date.today() != TODAY and any(isinstance(d["time"], dt.time) for d in data):
                    continue        # midnight passed during the run: "today" is no longer the day the record would assume
            except Exception as ex:
                errors.append({"err": type(ex).__name__, "msg": str(ex)[:200]})
                continue
            pair = {}
            for backend, (tl, doc, o) in both.items():
                pair[backend] = drawing_record(backend, tl, doc, opts, data, kind)
            recs.append(pair)
    elif mode == "hist":
        for k, h in enumerate(job.get("histories", [])):
            recs.append(play_timelines(h, job.get("seed", 0)))
        for k in range(job.get("count", 0)):
            recs.append(play_timelines(random_timelines_history(rng), job.get("seed", 0) * 1000 + k))
    elif mode == "total":
        descs = list(descriptors())
        for k, desc in enumerate(descs):
            if k % job["stride"] != job["offset"]:
                continue
            for rep in range(job.get("reps", 1)):
                data, opts = concretise(desc, rng)
                recs.append(total_record(desc, data, opts))
        for size, name in job.get("clusters", []):
            data, opts = big_case(size, rng) if name.startswith("n") else cluster_case(size, rng)
            desc = {"count": 40, "ttype": "datetime", "arr": "unsorted", "span": "century", "opts": "partial", "dir": "up",
                    "alg": "none", "bounds": "none", "ticks": 1, "cluster": name}
            recs.append(total_record(desc, data, opts))
    json.dump({"records": recs, "errors": errors}, sys.stdout, default=str)


if __name__ == "__main__":
    main()
