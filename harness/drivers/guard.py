# -*- coding: utf-8 -*-
"""CPU-time limit for one call into the library (a call that never returns is a failed call, not a stuck check).

The timer counts the CPU time of THIS process only (ITIMER_VIRTUAL), so machine load cannot make a healthy call time out;
limits are 4-6 orders of magnitude above the normal cost of the guarded call."""
import contextlib
import signal


class CallTimeout(Exception):
    pass


def _fire(signum, frame):
    raise CallTimeout()


signal.signal(signal.SIGVTALRM, _fire)


@contextlib.contextmanager
def limit(cpu_seconds):
    signal.setitimer(signal.ITIMER_VIRTUAL, cpu_seconds)
    try:
        yield
    finally:
        signal.setitimer(signal.ITIMER_VIRTUAL, 0)
