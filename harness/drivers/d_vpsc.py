# -*- coding: utf-8 -*-
"""Driver for C05: runs the real labella.vpsc.Solver on generated instances and projects
the observable result (positions, unsatisfiable flags, returned cost, termination) onto
the integer lattice used by spec/VpscTrace.tla and spec/VpscBig.tla.

stdin: {"seed": int, "count": int, "mode": "small"|"scaled"|"cyclic"|"large", "instances": [...]?}
stdout: {"records": [...], "discarded": int}
"""
import json
import math
import random
import sys
from fractions import Fraction

from labella import vpsc

INT_MAX = 2 ** 31 - 1


class Budget(Exception):
    pass


def limbs(n):
    out = []
    while n > 0:
        out.append(n % 10000)
        n //= 10000
    return out


def is_acyclic(n, cons):
    adj = [[] for _ in range(n)]
    indeg = [0] * n
    for a, b, g in cons:
        adj[a].append(b)
        indeg[b] += 1
    st = [i for i in range(n) if indeg[i] == 0]
    seen = 0
    while st:
        u = st.pop()
        seen += 1
        for v in adj[u]:
            indeg[v] -= 1
            if indeg[v] == 0:
                st.append(v)
    return seen == n


def failed_restart(solver, coin):
    """Solver.setStartingPositions() resets the block structure and then raises (the block list is not iterable); a caller
    who catches that goes on with the same Solver.  Should a later version accept the call, the starting positions are
    still no part of the problem instance."""
    try:
        solver.setStartingPositions([coin.randint(-5, 15) for _ in solver.vs])
    except Exception:
        pass


def run_solver(des, wt, sc, cons, first=None):
    """des/wt/sc are what the CODE sees (floats/ints); cons = [(l, r, gap)].
    first: desired positions of an EARLIER solve() on the same Solver; des is then installed with setDesiredPositions()
    and the observed run is the re-solve."""
    vs = [vpsc.Variable(d, w, s) for d, w, s in zip(des if first is None else first, wt, sc)]
    coin = random.Random(repr((list(map(str, des)), [(a, b, str(g)) for a, b, g in cons])))
    if coin.random() < 0.25 and len(vs) >= 2:
        # the Variable objects have a past: an EARLIER Solver, with another constraint set, was solved on them (a problem
        # instance is its variables' values and its constraints, not the history of the objects that carry them)
        try:
            order = list(range(len(vs)))
            coin.shuffle(order)
            prior = [vpsc.Constraint(vs[a], vs[b], coin.choice([0, 1, 2])) for a, b in zip(order, order[1:])][:coin.randint(1, len(vs) - 1)]
            ps = vpsc.Solver(vs, prior)
            for _ in range(200):
                before = [(c.active, c.unsatisfiable) for c in prior]
                ps.satisfy()
                if before == [(c.active, c.unsatisfiable) for c in prior]:
                    break
        except Exception:
            pass
    cs = [vpsc.Constraint(vs[a], vs[b], g) for a, b, g in cons]
    solver = vpsc.Solver(vs, cs)
    budget = 10 * (len(vs) + len(cs)) + 100
    calls = [0]
    orig = solver.satisfy

    def counted():
        calls[0] += 1
        if calls[0] > budget:
            raise Budget()
        return orig()

    solver.satisfy = counted
    terminated = True
    err = None
    ret = None
    try:
        if first is not None:
            solver.solve()
            calls[0] = 0
            if coin.random() < 0.35:
                failed_restart(solver, coin)
            solver.setDesiredPositions(list(des))
            if coin.random() < 0.2:
                failed_restart(solver, coin)
        ret = solver.solve()
    except Budget:
        terminated = False
    except RecursionError:
        terminated = False
        err = "RecursionError"
    except Exception as ex:             # a solve() that raises did not deliver a solution: data for C05_Terminates, not a crash
        terminated = False
        err = type(ex).__name__
    pos = [v.position() for v in vs]
    uns = [1 if c.unsatisfiable else 0 for c in cs]
    act = [1 if c.active else 0 for c in cs]
    return pos, uns, act, ret, terminated, calls[0], err


def traced_solve(des, wt, sc, cons, first=None):
    """Micro-step log of one solve() (or, with first, of solve(); setDesiredPositions(des); solve()): the solver's internal calls are wrapped at run time in THIS process only (no source hook).
    Returns None when an attribute to wrap does not exist any more (refactoring): the layer is then skipped."""
    needed = [(vpsc.Block, "split"), (vpsc.Block, "splitBetween"), (vpsc.Blocks, "merge"), (vpsc.Blocks, "split"),
              (vpsc.Solver, "mostViolated"), (vpsc.Solver, "satisfy")]
    if not all(hasattr(o, a) for o, a in needed):
        return None
    vs = [vpsc.Variable(d, w, s) for d, w, s in zip(des if first is None else first, wt, sc)]
    cs = [vpsc.Constraint(vs[a], vs[b], g) for a, b, g in cons]
    solver = vpsc.Solver(vs, cs)
    idx = {id(c): i + 1 for i, c in enumerate(cs)}
    raw = []
    st = {"sb": False}
    o_split = vpsc.Block.split
    o_sb = vpsc.Block.splitBetween
    o_merge = vpsc.Blocks.merge
    o_bsplit = vpsc.Blocks.split
    o_mv = vpsc.Solver.mostViolated
    o_sat = vpsc.Solver.satisfy

    def flags():
        return [1 if c.active else 0 for c in cs], [1 if c.unsatisfiable else 0 for c in cs]

    def w_split(cls, c):
        r = o_split(c)
        raw.append(("sbsplit" if st["sb"] else "split", idx.get(id(c), 0)) + flags())
        return r

    def w_sb(self, vl, vr):
        st["sb"] = True
        try:
            return o_sb(self, vl, vr)
        finally:
            st["sb"] = False

    def w_merge(self, c):
        r = o_merge(self, c)
        raw.append(("merge", idx.get(id(c), 0)) + flags())
        return r

    def w_bsplit(self, inactive):
        r = o_bsplit(self, inactive)
        raw.append(("endsplit", 0) + flags())
        return r

    def w_mv(self):
        v = o_mv(self)
        viol = v is not None and (not v.active) and v.slack() < vpsc.Solver.ZERO_UPPERBOUND
        raw.append(("mv", idx.get(id(v), 0) if viol else 0) + flags())
        return v

    def w_sat(self):
        if len(raw) > 4000:
            raise Budget()
        r = o_sat(self)
        raw.append(("endsat", 0) + flags())
        return r
    vpsc.Block.split = classmethod(w_split)
    vpsc.Block.splitBetween = w_sb
    vpsc.Blocks.merge = w_merge
    vpsc.Blocks.split = w_bsplit
    vpsc.Solver.mostViolated = w_mv
    vpsc.Solver.satisfy = w_sat
    try:
        solver.solve()
        if first is not None:
            coin = random.Random(repr((list(map(str, des)), len(cons))))
            if coin.random() < 0.3:
                failed_restart(solver, coin)
                if any(c.active for c in cs):          # (a version whose call does not reset the structure: nothing to log)
                    pass
                else:
                    raw.append(("restart", 0) + flags())
            solver.setDesiredPositions(list(des))
            raw.append(("retarget", 0) + flags())
            solver.solve()
    except Budget:
        return None
    except (RecursionError, Exception):
        # a solve that raises is judged by the verdict records (C05_Terminates); the micro-step layer just leaves it out
        return "raised"
    finally:
        vpsc.Block.split = o_split
        vpsc.Block.splitBetween = o_sb
        vpsc.Blocks.merge = o_merge
        vpsc.Blocks.split = o_bsplit
        vpsc.Solver.mostViolated = o_mv
        vpsc.Solver.satisfy = o_sat
    # raw calls -> model actions
    ev = []
    i = 0
    n = len(raw)
    while i < n:
        kind, c, act, uns = raw[i]
        if kind == "split":
            ev.append({"a": "S", "c": c, "act": act, "uns": uns})
        elif kind == "endsplit":
            ev.append({"a": "E", "c": 0, "act": act, "uns": uns})
        elif kind == "mv":
            nxt = raw[i + 1] if i + 1 < n else None
            if c == 0:
                ev.append({"a": "N", "c": 0, "act": act, "uns": uns})
            elif nxt is not None and nxt[0] == "mv":
                ev.append({"a": "U", "c": c, "act": nxt[2], "uns": nxt[3]})      # flagged, then the next candidate is fetched
            elif nxt is not None and nxt[0] == "merge":
                ev.append({"a": "M", "c": c, "act": nxt[2], "uns": nxt[3]})
                i += 1
            elif nxt is not None and nxt[0] == "sbsplit":
                # split-between: the state after the optional re-merge of c
                j = i + 2
                last = nxt
                if j < n and raw[j][0] == "merge":
                    last = raw[j]
                    j += 1
                ev.append({"a": "B", "c": c, "act": last[2], "uns": last[3]})
                i = j - 1
            else:
                ev.append({"a": "U", "c": c, "act": act, "uns": [u or (1 if k + 1 == c else 0) for k, u in enumerate(uns)]})
        elif kind == "endsat":
            ev.append({"a": "X", "c": 0, "act": act, "uns": uns})
        elif kind == "restart":
            ev.append({"a": "Z", "c": 0, "act": act, "uns": uns})
        elif kind == "retarget":
            ev.append({"a": "R", "c": 0, "act": act, "uns": uns, "des": list(des)})
        i += 1
    return ev


def envelope_ok(des, wt, sc, cons):
    """A-priori magnitude bound so that the exact rational arithmetic of Vpsc.tla stays
    inside TLC's 32-bit integers (see DESIGN section 5)."""
    qq = 1
    for s in sc:
        qq = qq * (s * s) // math.gcd(qq, s * s)
    D = qq * sum(wt)
    ymax = max(sc) * max(abs(d) for d in des) + sum(g for _, _, g in cons)
    gmax = max([g for _, _, g in cons] + [0])
    return (2 * ymax + gmax + 1) * D ** 4 < INT_MAX and 16 * D ** 3 * (ymax + 1) * qq < INT_MAX


def gen_small(rng, mode):
    if mode == "scaled":
        n = rng.randint(2, 5)
        scs = [rng.choice([1, 1, 2]) for _ in range(n)]
        wts = [rng.choice([1, 1, 2]) for _ in range(n)]
    else:
        n = rng.randint(2, 8)
        scs = [1] * n
        wts = [rng.choice([1, 1, 2, 3]) for _ in range(n)]
    hi = rng.choice([2, 3, 5, 10])
    des = [rng.randint(0, hi) for _ in range(n)]
    dens = rng.choice([0.25, 0.45, 0.7])
    cons = []
    for a in range(n):
        for b in range(a + 1, n):
            if rng.random() < dens:
                cons.append((a, b, rng.choice([0, 1, 1, 2, 3])))
                if rng.random() < 0.1:  # duplicate / redundant
                    cons.append((a, b, rng.choice([0, 1, 2])))
    if mode == "cyclic" and n >= 2:
        for _ in range(rng.randint(1, 2)):
            a, b = rng.sample(range(n), 2)
            if a < b:
                a, b = b, a
            cons.append((a, b, rng.choice([0, 1, 2])))
    rng.shuffle(cons)
    return des, wts, scs, cons


def rec_small(des, wt, sc, cons, first=None):
    n = len(des)
    pos, uns, act, ret, term, calls, err = run_solver(des, wt, sc, cons, first)
    rec = {
        "n": n, "des": des, "wt": wt, "sc": sc,
        "cl": [a + 1 for a, _, _ in cons], "cr": [b + 1 for _, b, _ in cons], "cg": [g for _, _, g in cons],
        "uns": uns, "act": act,
        "pos": [int(round(p * 10000)) for p in pos],
        "pos6": [int(round(p * 1000000)) for p in pos],
        "ret12": limbs(int(round(ret * 10 ** 12))) if ret is not None else [],
        "terminated": 1 if term else 0,
        "acyclic": 1 if is_acyclic(n, cons) else 0,
        "rounds": calls,
        "first": list(first) if first is not None else [],
    }
    return rec


def gen_heavy(rng):
    """Small instances with one or two very heavy (wall-like, 1e10) variables and a dense constraint graph: blocks that
    contain a heavy variable get merged and must be split again."""
    n = rng.randint(3, 9)
    wts = [Fraction(1)] * n
    for _ in range(rng.randint(1, 2)):
        wts[rng.randrange(n)] = Fraction(10 ** 10)
    if rng.random() < 0.3:
        wts[rng.randrange(n)] = Fraction(rng.choice([3, 100]))
    scs = [Fraction(1)] * n
    des = [Fraction(rng.randint(0, 9)) for _ in range(n)]
    order = list(range(n))
    rng.shuffle(order)
    cons = []
    dens = rng.choice([0.3, 0.5, 0.7])
    for i in range(n):
        for j in range(i + 1, n):
            if rng.random() < dens:
                cons.append((order[i], order[j], Fraction(rng.choice([0, 1, 2, 3, 3]))))
    if not cons:
        cons.append((order[0], order[1], Fraction(2)))
    return des, wts, scs, cons


def gen_large(rng):
    n = rng.randint(8, 60)
    wchoices = [Fraction(1, 100), Fraction(1), Fraction(3), Fraction(100), Fraction(10 ** 10)]
    wts = [rng.choice(wchoices) if rng.random() < 0.5 else Fraction(1) for _ in range(n)]
    scs = [rng.choice([Fraction(1, 2), Fraction(1), Fraction(1), Fraction(2), Fraction(4)]) for _ in range(n)]
    if rng.random() < 0.5:
        scs = [Fraction(1)] * n
    des = [Fraction(rng.randint(0, 80), rng.choice([1, 1, 2])) for _ in range(n)]
    m = rng.randint(n // 2, 3 * n)
    cons = []
    cyc = rng.random() < 0.25
    for _ in range(m):
        a, b = rng.sample(range(n), 2)
        if a > b and not (cyc and rng.random() < 0.1):
            a, b = b, a
        cons.append((a, b, Fraction(rng.choice([0, 1, 1, 2, 3, 5]), rng.choice([1, 1, 2]))))
    return des, wts, scs, cons


def better_feasible_point(des, wt, sc, cons, pos, act):
    """Certificate search (DESIGN 6, "certificates"): if an active constraint of the solver's final forest has a
    clearly negative multiplier, releasing it and letting the two sides relax gives a descent direction; walk along it
    as far as every constraint stays satisfied and return a point on the 1e-6 grid that is EXACTLY feasible and
    cheaper - or None.  TLC re-checks feasibility and cost exactly; a wrong proposal can only be rejected."""
    n = len(des)
    x = [Fraction(p) for p in pos]
    active = [i for i, a in enumerate(act) if a]
    if not active:
        return None
    adj = {v: [] for v in range(n)}
    for i in active:
        a, b, g = cons[i]
        adj[a].append((b, i))
        adj[b].append((a, i))

    def side(start, banned):
        seen = {start}
        st = [start]
        while st:
            u = st.pop()
            for v, ci in adj[u]:
                if ci != banned and v not in seen:
                    seen.add(v)
                    st.append(v)
        return seen
    worst = None
    for i in active:
        a, b, g = cons[i]
        R = side(b, i)
        if a in R:
            return None  # not a forest: no certificate attempted
        lam = sum(2 * wt[v] * (x[v] - des[v]) / sc[v] for v in R)
        if worst is None or lam < worst[0]:
            worst = (lam, i, R)
    lam, ci, R = worst
    if lam >= 0:
        return None
    a, b, g = cons[ci]
    Lset = side(a, ci)
    step = [Fraction(0)] * n
    for S in (Lset, R):
        num = sum(wt[v] / sc[v] * (x[v] - des[v]) for v in S)
        den = sum(wt[v] / (sc[v] * sc[v]) for v in S)
        delta = -num / den
        for v in S:
            step[v] = delta / sc[v]

    def slack(pt, c):
        l, r, gg = c
        return sc[r] * pt[r] - sc[l] * pt[l] - gg

    def cost(pt):
        return sum(wt[v] * (pt[v] - des[v]) ** 2 for v in range(n))
    theta = Fraction(1)
    for c in cons:
        s0 = max(Fraction(0), slack(x, c))
        d = slack([x[v] + step[v] for v in range(n)], c) - slack(x, c)
        if d < 0:
            theta = min(theta, s0 / (-d))
    base = cost(x)
    for shrink in (Fraction(999, 1000), Fraction(1, 2), Fraction(1, 10)):
        th = theta * shrink
        if th <= 0:
            return None
        pt = [Fraction(int(round((x[v] + th * step[v]) * 10 ** 6)), 10 ** 6) for v in range(n)]
        if all(slack(pt, c) >= 0 for c in cons) and cost(pt) < base - max(Fraction(1, 1000), base / 10 ** 6) * 4:
            return [int(p * 10 ** 6) for p in pt]
    return None


def rec_large(des, wt, sc, cons, first=None, base=0):
    """`base`: the instance is solved at desired positions base + des (unit scales only: separation constraints are then invariant
    under translation) and recorded relative to base, exactly."""
    n = len(des)
    pos, uns, act, ret, term, calls, err = run_solver(
        [float(d + base) for d in des], [float(w) for w in wt], [float(s) for s in sc],
        [(a, b, float(g)) for a, b, g in cons], None if first is None else [float(d + base) for d in first])
    if base:
        pos = [float(Fraction(p) - base) for p in pos]      # exact: both are integers or halves far below 2^53
    # integer scales: multiply scales and gaps by 2; weights by 100
    sc2 = [int(s * 2) for s in sc]
    rec = {
        "n": n,
        "des6": [int(d * 1000000) for d in des],
        "wt100": [limbs(int(w * 100)) for w in wt],
        "sc": sc2,
        "cl": [a + 1 for a, _, _ in cons], "cr": [b + 1 for _, b, _ in cons],
        "cg5": [int(g * 2 * 100000) for _, _, g in cons],
        "uns": uns,
        "pos5": [int(round(p * 100000)) if abs(p) < 1000 else None for p in pos],
        "pos6": [int(round(p * 1000000)) if abs(p) < 1000 else None for p in pos],
        "ret14": limbs(int(round(Fraction(ret) * 10 ** 14))) if ret is not None else [],
        # the same at full float precision: |position - desired| in units of 1e-12 (exact rational arithmetic on the floats the
        # solver reports), returned cost in units of 1e-26 (weights x100): the 1e-6 grid above is far too coarse for 1e10 weights
        "disp12": [limbs(abs(int(round((Fraction(p) - Fraction(d)) * 10 ** 12)))) for p, d in zip(pos, des)],
        "ret26": limbs(int(round(Fraction(ret) * 10 ** 26))) if ret is not None else [],
        "terminated": 1 if term else 0,
        "acyclic": 1 if is_acyclic(n, cons) else 0,
        "rounds": calls,
        "err": err or "",
        "haswit": 0, "wit6": [],
        "first": [str(d) for d in first] if first is not None else [],
    }
    if term and rec["acyclic"] and not any(uns):
        w = better_feasible_point(des, wt, sc, cons, pos, act)
        if w is not None and all(abs(v) < 2 * 10 ** 9 for v in w):
            rec["haswit"] = 1
            rec["wit6"] = w
    return rec


def main():
    job = json.load(sys.stdin)
    rng = random.Random(job["seed"])
    mode = job["mode"]
    recs = []
    discarded = 0
    for inst in job.get("large_instances", []):
        recs.append(rec_large([Fraction(x) for x in inst["des"]], [Fraction(x) for x in inst["wt"]], [Fraction(x) for x in inst["sc"]],
                              [(a, b, Fraction(g)) for a, b, g in inst["cons"]],
                              [Fraction(x) for x in inst["first"]] if inst.get("first") else None))
    if job.get("instances"):
        for inst in job["instances"]:
            cons = [tuple(c) for c in inst["cons"]]
            recs.append(rec_small(inst["des"], inst["wt"], inst["sc"], cons, inst.get("first") or None))
    while len(recs) < job["count"]:
        if mode == "heavyfar":
            # wall-like weights at desired positions of the order of 1e8 .. 1e12 (unit scales)
            des, wt, sc, cons = gen_heavy(rng)
            sc = [Fraction(1)] * len(des)
            rec = rec_large(des, wt, sc, cons, None, base=rng.choice([10 ** 8, 10 ** 9, 10 ** 10, 10 ** 12]))
            if any(p is None for p in rec["pos5"]):
                rec["pos5"] = [0] * len(des)
                rec["pos6"] = [0] * len(des)
                rec["terminated"] = 0          # positions thousands of units away from every desired position: no solution
            recs.append(rec)
        elif mode in ("large", "heavy", "reslarge"):
            des, wt, sc, cons = gen_heavy(rng) if mode == "heavy" else gen_large(rng)
            first = None
            if mode == "reslarge":
                first = [rng.choice([d, d + Fraction(rng.randint(-60, 60), 2), Fraction(rng.randint(-100, 100), 2)]) for d in des]
            rec = rec_large(des, wt, sc, cons, first)
            if any(p is None for p in rec["pos5"]):
                discarded += 1
                continue
            recs.append(rec)
        else:
            resolve = mode == "resolve" or (mode == "steps" and rng.random() < 0.4)
            des, wt, sc, cons = gen_small(rng, rng.choice(["small", "small", "scaled", "cyclic"]) if mode == "steps" else
                                          (rng.choice(["small", "small", "scaled", "cyclic"]) if mode == "resolve" else mode))
            first = None
            if resolve:
                # an earlier solve() on the same Solver with other desired positions (same lattice, so the same envelope)
                hi = max(des + [2])
                first = [rng.choice([d, rng.randint(0, hi), rng.randint(0, hi)]) for d in des]
                if rng.random() < 0.15:
                    first = list(des)                 # the same problem solved twice
            if not cons or not envelope_ok(des, wt, sc, cons) or (first is not None and not envelope_ok(first, wt, sc, cons)):
                discarded += 1
                continue
            if mode == "steps":
                ev = traced_solve(des, wt, sc, cons, first)
                if ev == "raised":
                    discarded += 1
                    continue
                if ev is None:
                    json.dump({"records": [], "discarded": 0, "skipped": "solver internals not wrappable"}, sys.stdout)
                    return
                recs.append({"n": len(des), "des": des if first is None else first, "wt": wt, "sc": sc, "cl": [a + 1 for a, _, _ in cons],
                             "cr": [b + 1 for _, b, _ in cons], "cg": [g for _, _, g in cons], "ev": ev})
            else:
                recs.append(rec_small(des, wt, sc, cons, first))
    json.dump({"records": recs, "discarded": discarded}, sys.stdout)


if __name__ == "__main__":
    main()
