# -*- coding: utf-8 -*-
"""Driver for C17 (and the calendar part of C18): labella.d3_time interval records.

stdin : {"days": [lo, hi, stride, offset], "hours_of_years": [...], "random": {"seed", "count"}, "ops": [...]}
Instants are projected to [day, ms, us] with plain datetime arithmetic (naive, no time zone).
"""
import datetime as dt
import json
import random
import sys

import guard

from labella.d3_time import d3_time

EPOCH = dt.datetime(1970, 1, 1)
UNITS = ["second", "minute", "hour", "day", "week", "month", "year"]
DAY = dt.timedelta(days=1)


def proj(t):
    d = t - EPOCH
    return [d.days, d.seconds * 1000 + d.microseconds // 1000, d.microseconds % 1000]


def civ(t):
    return [t.year, t.month, t.day, t.isoweekday() % 7]


def boundary(u, t):
    """A boundary of unit u at or before t, built from datetime fields only (not from the code under test)."""
    if u == "second":
        return t.replace(microsecond=0)
    if u == "minute":
        return t.replace(second=0, microsecond=0)
    if u == "hour":
        return t.replace(minute=0, second=0, microsecond=0)
    m = dt.datetime(t.year, t.month, t.day)
    if u == "day":
        return m
    if u == "week":
        return m - dt.timedelta(days=t.isoweekday() % 7)
    if u == "month":
        return dt.datetime(t.year, t.month, 1)
    return dt.datetime(t.year, 1, 1)


class Stamp(dt.datetime):
    """An instant handed over as an instance of a datetime subclass (pandas.Timestamp-like, or a user's own class)."""


def as_stamp(t):
    return Stamp(t.year, t.month, t.day, t.hour, t.minute, t.second, t.microsecond)


_CALLS = [0]


def call(u, op, t, k=0, t1=None, step=1):
    _CALLS[0] += 1
    if _CALLS[0] % 5 == 0:          # every fifth call passes subclass instances: they are instants like any other
        t = as_stamp(t)
        t1 = as_stamp(t1) if t1 else t1
    rec = {"u": u, "op": op, "t": proj(t)[:2], "civ": civ(t), "k": k, "t1": proj(t1)[:2] if t1 else [0, 0], "step": step,
           "out": [0, 0, 0], "outs": [], "err": ""}
    iv = d3_time[u]
    try:
        with guard.limit(20):
            if op == "floor":
                rec["out"] = proj(iv.floor(t))
            elif op == "ceil":
                rec["out"] = proj(iv.ceil(t))
            elif op == "round":
                rec["out"] = proj(iv.round(t))
            elif op == "offset":
                rec["out"] = proj(iv.offset(t, k))
            elif op in ("range", "wrange"):
                first = iv.range(t, t1, step)
                # the caller edits the list it was given and asks again: what is observed is the SECOND enumeration
                if isinstance(first, list):
                    first.append(t1)
                    if len(first) > 1:
                        first.pop(0)
                rec["outs"] = [proj(x) for x in iv.range(t, t1, step)]
    except Exception as ex:          # (includes guard.CallTimeout: the call did not return)
        rec["err"] = type(ex).__name__
    return rec


RANGE_SPAN = {"second": dt.timedelta(seconds=90), "minute": dt.timedelta(minutes=100), "hour": dt.timedelta(hours=60),
              "day": dt.timedelta(days=70), "week": dt.timedelta(days=200), "month": dt.timedelta(days=800),
              "year": dt.timedelta(days=9000)}


def records_for(t, units, rng, ops):
    out = []
    for u in units:
        for op in ops:
            if op in ("floor", "ceil", "round"):
                out.append(call(u, op, t))
                if op == "round" and rng.random() < 0.3:
                    # exactly half way between two boundaries (the later one wins), and 1 ms either side
                    b = boundary(u, t)
                    nxt = {"second": b + dt.timedelta(seconds=1), "minute": b + dt.timedelta(minutes=1), "hour": b + dt.timedelta(hours=1),
                           "day": b + dt.timedelta(days=1), "week": b + dt.timedelta(days=7),
                           "month": dt.datetime(b.year + (b.month == 12), b.month % 12 + 1, 1), "year": dt.datetime(b.year + 1, 1, 1)}[u]
                    mid = b + (nxt - b) / 2
                    mid = mid.replace(microsecond=(mid.microsecond // 1000) * 1000)
                    for tt in (mid, mid - dt.timedelta(milliseconds=1), mid + dt.timedelta(milliseconds=1)):
                        out.append(call(u, "round", tt))
            elif op == "offset":
                out.append(call(u, op, boundary(u, t), k=rng.choice([0, 1, 1, 2, 3, 7, 12, 28, 31, 59, 100, 365, 400])))
            elif op == "range":
                if u in ("second", "minute", "hour") and rng.random() < 0.02:
                    # a long run of consecutive boundaries (more than a thousand) across a daylight-saving change of a C18 zone
                    per = {"second": dt.timedelta(seconds=1), "minute": dt.timedelta(minutes=1), "hour": dt.timedelta(hours=1)}[u]
                    change = rng.choice([dt.datetime(2024, 3, 10, 2), dt.datetime(2024, 11, 3, 1), dt.datetime(2024, 10, 6, 2),
                                         dt.datetime(2024, 4, 7, 2), dt.datetime(2024, 9, 29, 2, 45), dt.datetime(2024, 4, 7, 3, 45)])
                    t0 = change - per * rng.randint(100, 900)
                    out.append(call(u, op, t0, t1=t0 + per * rng.choice([1030, 1100, 1500]), step=1))
                span = RANGE_SPAN[u] * rng.choice([0.02, 0.3, 1])
                step = 1 if u == "week" else rng.choice([1, 1, 2, 3, 5, 6, 10, 12])
                t1 = t + span
                if rng.random() < 0.3:
                    t1 = boundary(u, t1)              # the stop is itself a boundary: [start, stop) excludes it
                t0 = boundary(u, t) if rng.random() < 0.2 else t
                out.append(call(u, op, t0, t1=t1, step=step))
                if u == "week":
                    # stepped week ranges (spacing clause only); started shortly before a year's first Sunday half of the time
                    t0 = t if rng.random() < 0.5 else dt.datetime(t.year, 1, 1) - dt.timedelta(days=rng.randint(0, 20))
                    out.append(call(u, "wrange", t0, t1=t0 + dt.timedelta(days=rng.choice([40, 120, 400])), step=rng.choice([2, 2, 3, 4])))
    return out


def main():
    job = json.load(sys.stdin)
    rng = random.Random(job.get("seed", 0))
    ops = job.get("ops", ["floor", "ceil", "round", "offset", "range"])
    recs = []
    times = [dt.timedelta(0), dt.timedelta(milliseconds=1), dt.timedelta(hours=12), dt.timedelta(hours=23, minutes=59, seconds=59, milliseconds=999)]
    if job.get("days"):
        lo, hi, stride, offset = job["days"]
        d = lo + offset
        i = 0
        while d <= hi:
            base = EPOCH + dt.timedelta(days=d)
            # rotate the units over the days so that every unit sees every kind of day within 7 strides
            us = [UNITS[(d + j) % 7] for j in range(job.get("units_per_day", 2))]
            for tod in times:
                recs += records_for(base + tod, us, rng, ops)
            d += stride
            i += 1
    for y in job.get("hours_of_years", []):
        t = dt.datetime(y, 1, 1)
        end = dt.datetime(y + 1, 1, 1)
        hstride = job.get("hour_stride", 1)
        n = 0
        while t < end:
            if n % hstride == job.get("hour_offset", 0) % hstride:
                recs += records_for(t + dt.timedelta(minutes=rng.choice([0, 0, 17, 59]), seconds=rng.choice([0, 30]), milliseconds=rng.choice([0, 0, 1, 500, 999])),
                                    [UNITS[n % 7], UNITS[(n + 3) % 7]], rng, ops)
            t += dt.timedelta(hours=1)
            n += 1
    if job.get("random"):
        for _ in range(job["random"]):
            y = rng.randint(1900, 2199)
            t = dt.datetime(y, 1, 1) + dt.timedelta(days=rng.randint(0, 364), milliseconds=rng.randint(0, 86399999))
            if rng.random() < 0.3:  # month ends, leap days, year ends
                mth = rng.randint(1, 12)
                t = boundary("month", dt.datetime(y, mth, 28) + dt.timedelta(days=4)) - dt.timedelta(days=rng.choice([1, 1, 2, 3]), milliseconds=-rng.randint(0, 86399999))
            recs += records_for(t, rng.sample(UNITS, 3), rng, ops)
    json.dump({"records": recs}, sys.stdout)


if __name__ == "__main__":
    main()
