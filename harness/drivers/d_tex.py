# -*- coding: utf-8 -*-
"""Driver for C19: labella.tex.uni2tex on annotated inputs.  Unicode facts come from Python's
unicodedata (trusted data); all logic is in spec/Tex.tla."""
import json
import random
import sys
import unicodedata

from labella.tex import uni2tex


def annotate(ch):
    cp = ord(ch)
    raw = unicodedata.decomposition(ch)
    dec = []
    if raw and not raw.startswith("<"):
        dec = [int(x, 16) for x in raw.split()]
    return {"cp": cp, "mark": 1 if unicodedata.category(ch) in ("Mn", "Mc") else 0, "dec": dec}


def table(cps):
    """Full canonical decomposition and combining class of every code point involved (closure)."""
    todo = set(cps)
    seen = {}
    while todo:
        cp = todo.pop()
        if cp in seen:
            continue
        ch = chr(cp)
        nfd = [ord(c) for c in unicodedata.normalize("NFD", ch)]
        seen[cp] = {"cp": cp, "nfd": nfd, "ccc": unicodedata.combining(ch)}
        for x in nfd:
            if x not in seen:
                todo.add(x)
        raw = unicodedata.decomposition(ch)
        if raw and not raw.startswith("<"):
            for x in raw.split():
                todo.add(int(x, 16))
    # only rows that say something (decomposes, or has a combining class)
    return [v for v in seen.values() if v["nfd"] != [v["cp"]] or v["ccc"] != 0]


def record(text):
    rec = {"in": [annotate(c) for c in text], "out": [], "err": "", "tab": []}
    try:
        out = uni2tex(text)
        rec["out"] = [ord(c) for c in out]
    except Exception as ex:
        rec["err"] = type(ex).__name__
    cps = set(ord(c) for c in text) | set(rec["out"])
    rec["tab"] = table(cps)
    return rec


def interesting():
    out = []
    for cp in range(0x110000):
        if 0xD800 <= cp <= 0xDFFF:
            continue
        ch = chr(cp)
        if unicodedata.decomposition(ch) or unicodedata.category(ch) in ("Mn", "Mc"):
            out.append(cp)
    return out


POOL = (list("abcxyzAZ 09.,;") + list("\\{}$&%#_^~") + ["é", "ü", "ǘ", "Å", "Å", "ṩ", "́", "̈", "̖",
        "̧", "̌", "…", " ", "½", "²", "ﬁ", "中", "文", "\U0001f600", "का", "אָ", "가",
        "̈́", "ཱི", "ẛ", "ơ", "̀", "̣"])


def record_pair(text, out):
    """Same record as record(), for a text observed elsewhere than at uni2tex's return: `out` is what a TikZ label shows."""
    rec = {"in": [annotate(c) for c in text], "out": [ord(c) for c in out], "err": "", "tab": []}
    rec["tab"] = table(set(ord(c) for c in text) | set(rec["out"]))
    return rec


def export_records(rng, n):
    """The second observation point of C19: the \\def\\text.. lines of TimelineTex.export(), resolved through the macro each
    label box uses.  A datum without text must show no text; every other datum must show the TeX form of ITS OWN text."""
    import datetime as dt
    from labella.timeline import TimelineTex
    from d_timeline import parse_tex
    recs = []
    for _ in range(n):
        data = []
        for i in range(rng.randint(2, 7)):
            d = {"time": dt.datetime(2001, 1, 1) + dt.timedelta(days=rng.randint(0, 400), hours=i), "width": rng.choice([20, 40, 60])}
            r = rng.random()
            if r < 0.6:
                t = "".join(rng.choice(POOL) for _ in range(rng.randint(1, 8))).replace("\\", "\\ ")
                d["text"] = t if t.strip() else "t"
            elif r < 0.75:
                d["text"] = ""
            data.append(d)
        try:
            tl = TimelineTex(data, {"direction": rng.choice(["up", "down", "left", "right"])})
            doc = tl.export()
            if isinstance(doc, bytes):
                doc = doc.decode("utf-8")
            P = parse_tex(doc)
            shown = [b["text"] or "" for b in P["boxes"]]
            texts = [(nd.data.text or "") for nd in tl.nodes]
        except Exception as ex:
            rec = record_pair("", "")
            rec["err"] = "export:" + type(ex).__name__
            recs.append(rec)
            continue
        if len(shown) != len(texts):
            rec = record_pair("", "")
            rec["err"] = "export:boxes"
            recs.append(rec)
            continue
        for t, o in zip(texts, shown):
            recs.append(record_pair(t, o))
    return recs


def main():
    job = json.load(sys.stdin)
    rng = random.Random(job.get("seed", 0))
    recs = []
    if job.get("single"):
        stride, offset = job["single"]
        allcps = interesting()
        # sample by SHAPE of the decomposition mapping: small classes (e.g. the 11 spacing accents "<compat> 0020 03xx") are taken
        # completely, large ones strided
        classes = {}
        for cp in allcps:
            raw = unicodedata.decomposition(chr(cp)).split()
            tag = raw[0] if raw and raw[0].startswith("<") else ""
            parts = [p for p in raw if not p.startswith("<")]
            last_listed = bool(parts) and int(parts[-1], 16) in (0x300, 0x301, 0x302, 0x308, 0x30B, 0x303, 0x327, 0x328, 0x304, 0x331, 0x307, 0x323, 0x30A, 0x306, 0x30C)
            classes.setdefault((tag, len(parts), last_listed, unicodedata.category(chr(cp))), []).append(cp)
        cps = []
        for key in sorted(classes):
            members = classes[key]
            if len(members) <= 300:
                cps += members[job.get("proc", 0) % max(1, job.get("procs", 1))::max(1, job.get("procs", 1))]
            else:
                cps += members[offset::stride]
        for cp in cps:
            ch = chr(cp)
            recs.append(record(ch))
            recs.append(record(ch + "a"))
            recs.append(record("a" + ch))
    if job.get("blocks"):
        stride, offset, size = job["blocks"]
        starts = list(range(0, 0x110000, size))[offset::stride]
        skip = set(interesting())
        for st in starts:
            text = "".join(chr(cp) for cp in range(st, min(st + size, 0x110000))
                           if cp not in skip and not (0xD800 <= cp <= 0xDFFF) and cp != 92)
            if text:
                recs.append(record(text))
    if job.get("pairs"):
        # every code point of the given ranges followed by listed combining accents (the accent belongs to THAT character)
        stride, offset, per_char = job["pairs"]
        marks = [0x0300, 0x0301, 0x0302, 0x0308, 0x030B, 0x0303, 0x0327, 0x0328, 0x0304, 0x0331, 0x0307, 0x0323, 0x030A, 0x0306, 0x030C]
        k = 0
        for lo, hi in job.get("pair_ranges", [[0x20, 0x250], [0x370, 0x530], [0x1E00, 0x2000], [0x2C60, 0x2C80], [0xA720, 0xA800]]):
            for cp in range(lo, hi):
                if 0xD800 <= cp <= 0xDFFF or cp == 92:
                    continue
                if k % stride == offset:
                    for j in range(per_char):
                        m = marks[(cp + j * 4) % len(marks)]
                        recs.append(record(chr(cp) + chr(m)))
                        if j == 0:
                            recs.append(record("x" + chr(cp) + chr(m) + chr(marks[(cp + 7) % len(marks)]) + "y"))
                k += 1
    # runs of marks after one base: listed accents of different combining classes in any order, mixed with marks that have no TeX
    # command and with class-0 marks (variation selector, grapheme joiner, a Thai vowel sign), which block canonical reordering
    RUN_MARKS = ["\u0301", "\u0300", "\u0308", "\u0327", "\u0323", "\u030c", "\u0328", "\u0305", "\u0332", "\u0313", "\u0345",
                 "\ufe0f", "\u034f", "\u0e31", "\u093e"]
    for _ in range(job.get("random", 0) // 4):
        base = rng.choice(list("aeouAEnsxy") + ["\u03b1", "\u00ea", "\u0e01"])
        run = "".join(rng.choice(RUN_MARKS) for _ in range(rng.randint(2, 4)))
        recs.append(record(rng.choice(["", "x", "ab "]) + base + run + rng.choice(["", "z", " q"])))
    for _ in range(job.get("random", 0)):
        n = rng.randint(0, 12)
        text = "".join(rng.choice(POOL) for _ in range(n))
        # literal "\<accent>{" sequences in the INPUT would be read back as accents: not generated
        recs.append(record(text.replace("\\", "\\ ")))
    if job.get("export"):
        recs += export_records(rng, job["export"])
    for t in job.get("texts", []):
        recs.append(record(t))
    json.dump({"records": recs}, sys.stdout)


if __name__ == "__main__":
    main()
