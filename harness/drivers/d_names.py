# -*- coding: utf-8 -*-
"""Driver for C20: labella.utils int2name / hex2rgb / hex2rgbstr / hex2html."""
import itertools
import json
import random
import sys

from labella.utils import hex2html, hex2rgb, hex2rgbstr, int2name

HEX = "0123456789abcdefABCDEF"


def hex_record(code):
    rec = {"kind": "hex", "code": [ord(c) for c in code], "rgb": [0, 0, 0], "rgbstr": "", "html": "", "err": ""}
    try:
        rgb, rgbstr, html = hex2rgb(code), hex2rgbstr(code), hex2html(code)
        # a result of the wrong shape (not a triple of integers / not a string) is data for the verdict, not a reason to crash
        if not (isinstance(rgb, (tuple, list)) and len(rgb) == 3 and all(isinstance(x, int) and not isinstance(x, bool) for x in rgb)):
            rec["err"] = "shape:rgb=%r" % (rgb,)
        elif not isinstance(rgbstr, str):
            rec["err"] = "shape:rgbstr=%r" % (rgbstr,)
        elif not isinstance(html, str):
            rec["err"] = "shape:html=%r" % (html,)
        else:
            rec["rgb"], rec["rgbstr"], rec["html"] = [int(x) for x in rgb], rgbstr, html
    except Exception as ex:
        rec["err"] = type(ex).__name__
    return rec


def texnames_record(rng):
    """The macro names a TikZ export uses for its labels, links and dots, in drawing order (C20's second observation point): data
    with texts and without, a palette, and data entered twice (same time, text and width)."""
    import datetime as dt
    import re
    from labella.timeline import TimelineTex
    n = rng.choice([2, 5, 27, 30, 60])
    data = [{"time": dt.datetime(2020, 1, 1) + dt.timedelta(days=rng.randint(0, 400)), "width": rng.choice([20, 30]), "text": "t%d" % i}
            for i in range(n)]
    for _ in range(rng.choice([0, 1, 3])):
        data.insert(rng.randrange(len(data) + 1), dict(rng.choice(data)))
    for d in data:
        if rng.random() < 0.2:
            d.pop("text")
    opts = {"dotColor": ["#111", "#222222", "333", "#444", "#555"], "initialWidth": 3000}
    rec = {"kind": "texnames", "n": len(data), "labels": [], "links": [], "dots": [], "err": ""}
    try:
        doc = TimelineTex(data, opts).export()
        lab = doc[doc.index("% label layer"):doc.index("% dots")]
        lnk = doc[doc.index("% link layer"):doc.index("% label layer")]
        dots = doc[doc.index("% dots"):]
        asnum = lambda name: [ord(c) - 64 for c in name]
        rec["labels"] = [asnum(x) for x in re.findall(r"text=labelTextColor(\w+)\]", lab)]
        seen = []
        for x in re.findall(r"color=linkColor(\w+),", lnk):
            if not seen or seen[-1] != x:
                seen.append(x)
        rec["links"] = [asnum(x) for x in seen]
        rec["dots"] = [asnum(x) for x in re.findall(r"fill=dotColor(\w+)\]", dots)]
    except Exception as ex:
        rec["err"] = type(ex).__name__
    return rec


def main():
    job = json.load(sys.stdin)
    rng = random.Random(job.get("seed", 0))
    recs = []
    tex_first = rng.random() < 0.5
    if tex_first:
        for _ in range(job.get("texnames", 0)):
            recs.append(texnames_record(rng))
    blocks = list(job.get("name_blocks", []))
    # a name is a function of its index alone: the order in which a process asks for names is no input.  Blocks are visited
    # in a shuffled order and, every other block, the indices inside a block too (descending or at random)
    rng.shuffle(blocks)
    for bi, (i0, n) in enumerate(blocks):
        order = list(range(i0, i0 + n))
        if bi % 2 == 0:
            if rng.random() < 0.5:
                order.reverse()
            else:
                rng.shuffle(order)
        got = {}
        for i in order:
            got[i] = [ord(c) - 64 for c in int2name(i)]
        recs.append({"kind": "names", "i0": i0, "names": [got[i] for i in range(i0, i0 + n)]})
    if not tex_first:
        for _ in range(job.get("texnames", 0)):
            recs.append(texnames_record(rng))
    if job.get("hex3"):
        stride, offset = job["hex3"]
        k = 0
        for t in itertools.product(HEX, repeat=3):
            if k % stride == offset:
                code = "".join(t)
                recs.append(hex_record(code))
                recs.append(hex_record("#" + code))
            k += 1
    for _ in range(job.get("hex6_structured", 0)):
        # one channel sweeps a value, the others random; both cases; with/without '#'
        v = rng.randrange(256)
        pos = rng.randrange(3)
        ch = [rng.randrange(256) for _ in range(3)]
        ch[pos] = v
        code = "".join("%02x" % c for c in ch)
        code = "".join(c.upper() if rng.random() < 0.5 else c for c in code)
        recs.append(hex_record(("#" if rng.random() < 0.5 else "") + code))
    if job.get("hex6_channels"):
        for pos in range(3):
            for v in range(256):
                ch = [0x12, 0xAB, 0xEF]
                ch[pos] = v
                recs.append(hex_record("".join("%02X" % c for c in ch)))
                recs.append(hex_record("#" + "".join("%02x" % c for c in ch)))
    json.dump({"records": recs}, sys.stdout)


if __name__ == "__main__":
    main()
