# -*- coding: utf-8 -*-
"""Driver for C20: labella.utils int2name / hex2rgb / hex2rgbstr / hex2html."""
import itertools
import json
import random
import sys

from labella.utils import hex2html, hex2rgb, hex2rgbstr, int2name

HEX = "0123456789abcdefABCDEF"


def hex_record(code):
    rec = {"kind": "hex", "code": [ord(c) for c in code], "rgb": [0, 0, 0], "rgbstr": "", "html": "", "err": ""}
    try:
        rec["rgb"] = [int(x) for x in hex2rgb(code)]
        rec["rgbstr"] = hex2rgbstr(code)
        rec["html"] = hex2html(code)
    except Exception as ex:
        rec["err"] = type(ex).__name__
    return rec


def main():
    job = json.load(sys.stdin)
    rng = random.Random(job.get("seed", 0))
    recs = []
    for i0, n in job.get("name_blocks", []):
        names = []
        for i in range(i0, i0 + n):
            s = int2name(i)
            names.append([ord(c) - 64 for c in s])
        recs.append({"kind": "names", "i0": i0, "names": names})
    if job.get("hex3"):
        stride, offset = job["hex3"]
        k = 0
        for t in itertools.product(HEX, repeat=3):
            if k % stride == offset:
                code = "".join(t)
                recs.append(hex_record(code))
                recs.append(hex_record("#" + code))
            k += 1
    for _ in range(job.get("hex6_structured", 0)):
        # one channel sweeps a value, the others random; both cases; with/without '#'
        v = rng.randrange(256)
        pos = rng.randrange(3)
        ch = [rng.randrange(256) for _ in range(3)]
        ch[pos] = v
        code = "".join("%02x" % c for c in ch)
        code = "".join(c.upper() if rng.random() < 0.5 else c for c in code)
        recs.append(hex_record(("#" if rng.random() < 0.5 else "") + code))
    if job.get("hex6_channels"):
        for pos in range(3):
            for v in range(256):
                ch = [0x12, 0xAB, 0xEF]
                ch[pos] = v
                recs.append(hex_record("".join("%02X" % c for c in ch)))
                recs.append(hex_record("#" + "".join("%02x" % c for c in ch)))
    json.dump({"records": recs}, sys.stdout)


if __name__ == "__main__":
    main()
