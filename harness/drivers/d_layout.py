# -*- coding: utf-8 -*-
"""Driver for C01-C04 and C06: runs labella.force.Force on label sets and projects the
observable result onto the integer lattice of spec/LayoutTrace.tla.

stdin : {"seed", "count", "mode": "lattice"|"random"|"dense"|"bounds"|"float", "instances": [...]?}
        an instance is {"labels": [[ideal, width], ...], "opts": {...Force options...}}
stdout: {"records": [...]}
"""
import itertools
import json
import random
import sys
from fractions import Fraction

import guard
from labella.force import Force
from labella.node import Node

LINE_SPACING = 2


def q(v, U, exact, floor=False):
    f = Fraction(v) * U
    if f.denominator != 1:
        if exact:
            raise ValueError("non-lattice value %r in lattice mode" % (v,))
        return int(f.__floor__()) if floor else int(round(f))
    return int(f)


_BASE = [Fraction(0)]


def qp(v, U, exact):
    """A POSITION (data position, target, final position, bound) relative to the instance's base: the predicates are invariant under
    translation, and coordinates of the order of 1e7..1e13 do not fit TLC's integers."""
    return q(Fraction(v) - _BASE[0], U, exact)


DOC_DEFAULTS = {"nodeSpacing": 3, "minPos": 0, "maxPos": None, "algorithm": "overlap", "density": 0.85, "stubWidth": 1}


def project(force, nodes, labels, opts, U, lattice):
    """Observation after force.compute(): public attributes only.  Lattice instances are projected exactly in quarter units; if
    the code left a value that is not on the lattice (positions are normally integers), the projection falls back to units of
    1/200 (rounded) for small layouts, else to the float projection (C01/C03 only)."""
    if not lattice:
        return _project(force, nodes, labels, opts, U, False, False)
    try:
        return _project(force, nodes, labels, opts, U, True, True)
    except ValueError:
        big = max([abs(n.currentPos) for n in nodes] + [0])
        if (len(nodes) <= 30 and big <= 1500) or _small_products(nodes, opts):
            rec = _project(force, nodes, labels, opts, 200, True, False)
            rec["offlattice"] = 1
            return rec
        rec = _project(force, nodes, labels, opts, 1000, False, False)
        rec["offlattice"] = 1
        return rec


def _small_products(nodes, opts):
    """A single layer (algorithm none) whose pool-adjacent-violators products stay far inside 32 bits in units of 1/200 although it
    has more than 30 items: the z-coordinates (target minus the sum of the gaps before it) are all small."""
    try:
        if (opts or {}).get("algorithm") != "none" or len(nodes) > 64:
            return False
        ns = Fraction((opts or {}).get("nodeSpacing", 3))
        srt = sorted(nodes, key=lambda n: n.idealPos)
        off = Fraction(0)
        zmax = Fraction(0)
        for i, n in enumerate(srt):
            if i:
                off += Fraction(srt[i - 1].width + n.width) / 2 + ns
            zmax = max(zmax, abs(Fraction(n.idealPos) - off))
        pmax = max(abs(Fraction(n.currentPos)) for n in nodes)
        k = len(nodes)
        return 2 * 200 * zmax * k * k < 10 ** 9 and 2 * 200 * (pmax + off) * k < 10 ** 9
    except Exception:
        return False


def _project(force, nodes, labels, opts, U, lattice, exact):
    ident = {}
    items = []
    chainlen = []
    for i, n in enumerate(nodes):
        lid = i + 1
        walk = [n]
        cur = n
        hops = 0
        while cur.parent is not None and hops < 10000:
            walk.append(cur.parent)
            cur = cur.parent
            hops += 1
        chainlen.append(len(walk) - 1)
        for d, obj in enumerate(walk):
            if id(obj) in ident:
                continue  # shared object: will show up as a duplicate reference / missing item
            kind = "L" if d == 0 else "S"
            parent = obj.parent
            target = parent.currentPos if parent is not None else (n.idealPos if d == 0 else obj.idealPos)
            it = {
                "k": kind, "id": lid,
                "t": qp(target, U, exact),
                "w": q(obj.width, U, exact, floor=not lattice),
                "p": qp(obj.currentPos, U, exact),
                "li": int(obj.layerIndex),
                "ideal": qp(obj.idealPos, U, exact),
                "dataok": 1 if obj.data is n.data else 0,
                "parentlayer": (int(parent.layerIndex) + 1) if parent is not None else 0,
                "childlayer": 0,
            }
            if d > 0:
                expected_child = walk[d - 1]
                it["childlayer"] = (int(obj.child.layerIndex) + 1) if obj.child is expected_child else -1
            ident[id(obj)] = it
            items.append((obj, it))
    rep_raw = force.getLayers()
    hasrep = 1 if rep_raw is not None else 0
    rep = []
    foreign = 0
    order_pos = {}
    if rep_raw is not None:
        for k, layer in enumerate(rep_raw):
            row = []
            for j, obj in enumerate(layer):
                it = ident.get(id(obj))
                if it is None:
                    foreign += 1
                    row.append(["X", 0])
                else:
                    row.append([it["k"], it["id"]])
                    order_pos[id(obj)] = j
            rep.append(row)
    nl = max([it["li"] for _, it in items] + [0]) + 1
    layers = [[] for _ in range(nl)]
    for obj, it in items:
        if 0 <= it["li"] < nl:
            layers[it["li"]].append((order_pos.get(id(obj), 10 ** 9), obj, it))
    out_layers = []
    for row in layers:
        # chain order: the reported (in-place sorted) list order when available, then stable by target
        # (without a report: by final position within a tie group, which is the spatial order)
        row.sort(key=lambda x: (x[0], x[2]["p"]))
        row.sort(key=lambda x: x[2]["t"])
        out_layers.append([it for _, _, it in row])
    # the configuration the CALLER asked for (documented defaults for what was never passed), not the engine's own report
    o = dict(DOC_DEFAULTS)
    o.update(opts if opts is not None else force.options)
    dens = Fraction(str(o["density"]))
    rec = {
        "U": U, "lattice": 1 if lattice else 0, "order": hasrep,
        "opts": {
            "ns": q(o["nodeSpacing"], U, exact, floor=not lattice),
            "hasMin": 0 if o.get("minPos") is None else 1,
            # (a lower bound billions of units to the left of a far-away instance is recorded as "at least 1e6 units to the left":
            #  the true bound is farther still, so nothing that holds for the recorded one fails for the true one)
            "minPos": 0 if o.get("minPos") is None else max(qp(o["minPos"], U, exact), -10 ** 6),
            "hasMax": 0 if o.get("maxPos") is None else 1,
            "maxPos": 0 if o.get("maxPos") is None else qp(o["maxPos"], U, exact),
            "densN": dens.numerator, "densD": dens.denominator,
            "stubW": q(o["stubWidth"], U, exact, floor=not lattice),
            "alg": o["algorithm"],
        },
        "labels": [{"id": i + 1, "ideal": qp(a, U, exact), "w": q(w, U, exact, floor=not lattice)}
                   for i, (a, w) in enumerate(labels)],
        "layers": out_layers,
        "chainlen": chainlen,
        "hasrep": hasrep, "rep": rep, "foreign": foreign,
    }
    return rec


def shuffled(d, rng):
    keys = list(d)
    rng.shuffle(keys)
    return {k: d[k] for k in keys}


def run_instance(inst, U, lattice):
    _BASE[0] = Fraction(inst.get("base", 0))
    try:
        rec = _run_instance(inst, U, lattice)
        rec["far"] = 1 if inst.get("base") else 0
        return rec
    finally:
        _BASE[0] = Fraction(0)


def _run_instance(inst, U, lattice):
    labels = [tuple(x) for x in inst["labels"]]
    nodes = [Node(float(a) if not lattice else _num(a), _num(w), {"id": i + 1}) for i, (a, w) in enumerate(labels)]
    # a caller who wants a documented default usually does not pass the key at all: default-valued keys are dropped on a
    # per-instance coin (the record still carries the full configuration that was asked for)
    coin = random.Random(json.dumps(inst, sort_keys=True, default=str))
    passed = {k: v for k, v in inst["opts"].items() if not (k in DOC_DEFAULTS and v == DOC_DEFAULTS[k] and coin.random() < 0.5)}
    passed = shuffled(passed, coin)        # the insertion order of an options dict is no input either
    f = Force(passed if passed or coin.random() < 0.5 else None)
    f.nodes(list(nodes))       # (the engine may sort the list it is given in place; keep ours in label order)
    if inst.get("decoy") is not None:
        # another engine, with other options, is created and configured between this engine's construction and its compute():
        # engines share nothing
        g = Force(passed if inst["decoy"][0] == "SAME" else inst["decoy"][0])     # "SAME": built from the very dict object f was given
        if inst["decoy"][1] is not None:
            g.set_options(inst["decoy"][1])
    try:
        # (a far-away instance that makes the solver cycle must not stall the check for a quarter of an hour: 40 s of CPU are
        #  four orders of magnitude above the cost of a 25-label layout)
        with guard.limit(40 if inst.get("base") else 900):
            f.compute()
    except RecursionError:
        return {"error": "RecursionError", "n": len(labels)}
    except Exception as ex:       # the layout must be computed for every input of the quantifier
        return {"error": type(ex).__name__, "n": len(labels), "instance": {"labels": [list(x) for x in labels], "opts": inst["opts"]}}
    rec = project(f, nodes, labels, inst["opts"], U, lattice)
    rec["fresh"] = 1
    rec["hasmetrics"] = 0
    if lattice and rec["U"] == 4 and f.getLayers() is not None:
        try:
            from labella import metrics as M
            from fractions import Fraction as F
            ly = f.getLayers()
            o = f.options
            buf = F(o["nodeSpacing"])
            nl = sum(1 for l in ly for x in l if not x.isStub())
            rec["metrics"] = {
                "wa": int(M.weightedAllocation(ly)), "was": q(M.weightedAllocatedSpace(ly), U, True),
                "over2": q(F(M.overflowSpace(ly, o.get("minPos"), o.get("maxPos"))) * 2, U, True),
                "oc0": int(M.overlapCount(ly, 0)), "ocbuf": int(M.overlapCount(ly, float(buf))), "buf": q(buf, U, True),
                "dispnum": q(F(M.displacement(ly)) * nl, U, False), "dispden": nl}
            rec["hasmetrics"] = 1
        except Exception:
            rec["hasmetrics"] = 0
    return rec


def run_relayout(rng):
    """The same engine laid out twice: compute, change options, compute again (and sometimes hand the same label objects
    to a second engine).  The observation is projected after the LAST compute and must satisfy every single-layout
    property for the final options (C01-C04 quantify over configurations, not over how the engine got there)."""
    inst = gen_random(rng, "random")
    labels = [tuple(x) for x in inst["labels"]]
    nodes = [Node(_num(a), _num(w), {"id": i + 1}) for i, (a, w) in enumerate(labels)]
    first = dict(inst["opts"])
    intended = None
    if rng.random() < 0.2:
        # a dry run of the layering through the public Distributor (narrow band: stubs are created, layerIndex stays as it was)
        from labella.distributor import Distributor
        try:
            Distributor({"algorithm": rng.choice(["overlap", "simple"]), "layerWidth": rng.choice([10, 50, 100.5]), "density": 0.75,
                         "nodeSpacing": 3, "stubWidth": 1}).distribute(list(nodes))
        except Exception:
            pass
    try:
        if rng.random() < 0.35:
            # the configuration handed over piecemeal: constructor + one or two set_options() calls, keys that equal the
            # documented default sometimes never passed at all; nothing computed in between
            full = dict(inst["opts"])
            keys = [k for k in full if not (full[k] == DOC_DEFAULTS[k] and rng.random() < 0.5)]
            rng.shuffle(keys)
            cuts = sorted(rng.sample(range(len(keys) + 1), 2))
            parts = [keys[:cuts[0]], keys[cuts[0]:cuts[1]], keys[cuts[1]:]]
            f = Force({k: full[k] for k in parts[0]} if parts[0] or rng.random() < 0.5 else None)
            for part in parts[1:]:
                if part or rng.random() < 0.3:
                    f.set_options({k: full[k] for k in part})
            f.nodes(list(nodes))
            with guard.limit(900):
                f.compute()
            intended = {k: full[k] for k in keys}
        else:
            base = first["minPos"] if first["minPos"] is not None else 0
            first["maxPos"] = base + rng.choice([10, 50, 100.5])     # narrow: forces several layers
            f = Force(shuffled(first, rng))
            f.nodes(list(nodes))
            with guard.limit(900):
                f.compute()
            delta = {"maxPos": inst["opts"]["maxPos"], "stubWidth": rng.choice([0, 1, 2.5]), "nodeSpacing": rng.choice([0, 1, 3])}
            if rng.random() < 0.3:
                delta["algorithm"] = rng.choice(["overlap", "simple", "none"])
            if rng.random() < 0.3:
                delta.pop("nodeSpacing")
            intended = dict(first)
            intended.update(delta)
            if rng.random() < 0.4:
                # the labels are re-measured / re-positioned between the two layouts (Timeline itself assigns node.width after
                # construction; a caller that rescales its axis assigns idealPos): the second layout is for the NEW values
                labels = list(labels)
                for i in rng.sample(range(len(nodes)), max(1, len(nodes) // 2)):
                    a, w = labels[i]
                    if rng.random() < 0.8:
                        w = rng.choice([x for x in (0.5, 1, 2, 3.5, 10, 25, 50.5) if x != w])
                        nodes[i].width = _num(w)
                    else:
                        a = a + rng.choice([-3, 0.5, 7, 20])
                        nodes[i].idealPos = _num(a)
                    labels[i] = (a, w)
            if rng.random() < 0.5:
                f.set_options(shuffled(delta, rng))
                with guard.limit(900):
                    f.compute()
            else:
                f = Force(shuffled(intended, rng))
                f.nodes(list(nodes) if rng.random() < 0.5 else list(reversed(nodes)))
                with guard.limit(900):
                    f.compute()
    except RecursionError:
        return {"error": "RecursionError", "n": len(labels)}
    except Exception as ex:
        return {"error": type(ex).__name__, "n": len(labels), "instance": {"labels": [list(x) for x in labels], "opts": first, "relayout": True}}
    rec = project(f, nodes, labels, intended, 4, True)
    rec["fresh"] = 0
    return rec


def run_direct(rng):
    """Direct calls of labella.removeOverlap.removeOverlap(nodes, options) with PARTIAL option dicts, several in a row in one
    process: each call must honour the documented defaults (nodeSpacing 3, minPos 0, no maxPos) for the keys it does not pass."""
    from labella import removeOverlap as ro
    recs = []
    for _ in range(rng.randint(2, 4)):
        n = rng.randint(1, 12)
        labels = [(half(rng, -30, 120), rng.choice([1, 2, 3.5, 10, 20.5])) for _ in range(n)]
        nodes = [Node(_num(a), _num(w), {"id": i + 1}) for i, (a, w) in enumerate(labels)]
        partial = {}
        if rng.random() < 0.5:
            partial["minPos"] = rng.choice([None, -10, 5.5])
        if rng.random() < 0.5:
            partial["maxPos"] = rng.choice([None, 100, 60.5, 250])
        if rng.random() < 0.4:
            partial["nodeSpacing"] = rng.choice([0, 1, 5])
        lst = list(nodes)
        ro.removeOverlap(lst, dict(partial) if partial or rng.random() < 0.5 else None)
        eff = {"nodeSpacing": 3, "minPos": 0, "maxPos": None}
        eff.update(partial)
        items = []
        UU = 4
        if any((Fraction(nd.currentPos) * 4).denominator != 1 for nd in nodes):
            UU = 200          # the code left positions off the lattice: project them to 1/200 (rounded)
        for i, nd in enumerate(nodes):
            items.append({"k": "L", "id": i + 1, "t": q(nd.idealPos, UU, True), "w": q(nd.width, UU, True), "p": q(nd.currentPos, UU, False),
                          "li": 0, "ideal": q(nd.idealPos, UU, True), "dataok": 1, "parentlayer": 0, "childlayer": 0})
        order = {id(nd): j for j, nd in enumerate(lst)}
        items.sort(key=lambda it: order[id(nodes[it["id"] - 1])])
        items.sort(key=lambda it: it["t"])
        recs.append({"U": UU, "lattice": 1, "order": 1, "fresh": 0,
                     "opts": {"ns": q(eff["nodeSpacing"], UU, True), "hasMin": 0 if eff["minPos"] is None else 1,
                              "minPos": 0 if eff["minPos"] is None else q(eff["minPos"], UU, True),
                              "hasMax": 0 if eff["maxPos"] is None else 1,
                              "maxPos": 0 if eff["maxPos"] is None else q(eff["maxPos"], UU, True),
                              "densN": 1, "densD": 1, "stubW": UU, "alg": "none"},
                     "labels": [{"id": i + 1, "ideal": q(a, UU, True), "w": q(w, UU, True)} for i, (a, w) in enumerate(labels)],
                     "layers": [items], "chainlen": [0] * n, "hasrep": 0, "rep": [], "foreign": 0})
    return recs


def _num(v):
    # keep ints as ints and halves as floats, as a caller would pass them
    f = Fraction(v)
    return int(f) if f.denominator == 1 else float(f)


# ------------------------------------------------------------------ instance generators

L_IDEAL = [0, 1, 1.5, 2, 4, 4.5]
L_WIDTH = [1, 2, 3.5]
L_NS = [0, 1, 3]
L_MIN = [None, 0, -1.5]
L_MAX = [None, 4, 8, 12]
L_DENS = [0.5, 1]
L_STUB = [0, 1]
L_ALG = ["overlap", "simple", "none"]


def lattice_configs():
    out = []
    for ns, mn, mx, de, st, al in itertools.product(L_NS, L_MIN, L_MAX, L_DENS, L_STUB, L_ALG):
        out.append({"nodeSpacing": ns, "minPos": mn, "maxPos": mx, "density": de, "stubWidth": st, "algorithm": al})
    return out


def lattice_labelsets(maxn):
    types = list(itertools.product(L_IDEAL, L_WIDTH))
    out = []
    for n in range(1, maxn + 1):
        for combo in itertools.combinations_with_replacement(types, n):
            out.append([list(c) for c in combo])
    return out


def lattice_instances(maxn, stride, offset):
    cfgs = lattice_configs()
    sets = lattice_labelsets(maxn)
    k = 0
    for ls in sets:
        for c in cfgs:
            if k % stride == offset:
                yield {"labels": ls, "opts": c}
            k += 1


def half(rng, lo, hi):
    return rng.randint(int(lo * 2), int(hi * 2)) / 2.0


def gen_stubpairs(rng):
    """A layer in which NOTHING conflicts except two or three neighbouring stubs: a few labels far apart stay in layer 0, a small
    group with (nearly) the same data position is sent outward by a low density, and its stubs land next to each other among the
    free-standing labels - closer than stub width + line spacing (2), though clear of each other by the label spacing (< 2)."""
    ns = rng.choice([0, 0, 0.5, 1, 1.5])
    sw = rng.choice([0, 0, 0.5, 1])
    x = rng.choice([60, 80, 75.5])
    delta = rng.choice([0, sw + ns, sw + ns + 0.5, sw + 1, sw + 1.5])
    w = rng.choice([10, 12.5, 20])
    group = [[x + k * delta, w] for k in range(rng.choice([2, 2, 3]))]
    others = [[10, 20], [rng.choice([40, 50]), rng.choice([10, 20])]][:rng.choice([1, 2])]
    labels = others + group
    rng.shuffle(labels)
    opts = {"nodeSpacing": ns, "algorithm": "overlap", "density": rng.choice([0.4, 0.45, 0.5]), "stubWidth": sw,
            "minPos": 0, "maxPos": rng.choice([100, 120])}
    return {"labels": labels, "opts": opts}


def gen_random(rng, mode):
    if mode != "dense" and rng.random() < 0.12:
        return gen_stubpairs(rng)
    if mode == "dense":
        n = rng.choice([20, 40, 80, 120, 150, 180, 200])
        span = rng.choice([2, 10, 50, 200])
        labels = [[half(rng, 0, span), half(rng, 0.5, 12)] for _ in range(n)]
    else:
        n = rng.randint(1, 40)
        span = rng.choice([5, 30, 100, 400, 1000])
        labels = [[half(rng, 0, span), rng.choice([0.5, 1, 2, 3.5, 10, 25, 50.5])] for _ in range(n)]
        if rng.random() < 0.3:  # ties
            for _ in range(n // 3):
                a, b = rng.randrange(n), rng.randrange(n)
                labels[a][0] = labels[b][0]
                if rng.random() < 0.5:
                    labels[a][1] = labels[b][1]
    if mode != "dense" and rng.random() < 0.25:
        # data positions on both sides of zero, or all negative
        off = rng.choice([-span / 2.0, -span - 10, -1000])
        labels = [[a + off, w] for a, w in labels]
    opts = {"nodeSpacing": rng.choice([0, 0, 0.5, 1, 3, 3, 5]),
            "algorithm": rng.choice(["overlap", "overlap", "simple", "none"]),
            "density": rng.choice([0.5, 0.75, 0.85, 1]),
            "stubWidth": rng.choice([0, 1, 1, 2.5])}
    mn = rng.choice([0, 0, None, -10.5, 30])
    if labels and min(a for a, _ in labels) < 0 and mn is not None and rng.random() < 0.7:
        mn = min(a for a, _ in labels) - rng.choice([0, 5.5, 40])         # a lower bound below the negative data
    opts["minPos"] = mn
    if rng.random() < 0.6:
        base = mn if mn is not None else 0
        opts["maxPos"] = base + rng.choice([10, 50, 100.5, 300, 904, 2000, 0])      # 0: both bounds equal (an empty band)
        if rng.random() < 0.1 and labels:
            opts["maxPos"] = base + max(w for _, w in labels)                         # the band is exactly as wide as the widest label
    else:
        opts["maxPos"] = None
    return {"labels": labels, "opts": opts}


def gen_bounds(rng):
    """Bounds synthesised around the required width of the whole set (single layer)."""
    n = rng.randint(1, 25)
    labels = [[half(rng, 0, 120), rng.choice([1, 2, 3.5, 10, 20.5])] for _ in range(n)]
    ns = rng.choice([0, 1, 3])
    req = sum(w for _, w in labels) + (n - 1) * ns
    mn = rng.choice([0, -7.5, 12, None])
    delta = rng.choice([0, 0, 0.5, -0.5, -1, -10, 0.5, 5])
    opts = {"nodeSpacing": ns, "algorithm": rng.choice(["none", "none", "overlap", "simple"]),
            "density": rng.choice([1, 1, 0.85]), "stubWidth": rng.choice([0, 1]),
            "minPos": mn, "maxPos": (mn if mn is not None else 0) + req + delta}
    if mn is None and rng.random() < 0.5:
        opts["maxPos"] = req / 2.0 + delta
    return {"labels": labels, "opts": opts}


def gen_budget(rng):
    """Label sets whose required width sits exactly on, or half a unit around, a NON-INTEGER layer budget (dyadic density, so
    that density * layerWidth is exact): 'fits the budget' must mean <=, not < floor."""
    dens = rng.choice([0.5, 0.75, 0.85])
    lw = rng.choice([50, 51, 75, 101, 30])
    if dens == 0.75 and (3 * lw) % 4 == 0:
        lw += 2
    if dens == 0.5 and lw % 2 == 0:
        lw += 1
    budget = dens * lw                      # has a fractional part of .25 / .5 / .75
    ns = rng.choice([0, 1, 3, 0.5])
    n = rng.randint(3, 8)
    target = budget + rng.choice([0, 0, -0.5, 0.5, -1])
    if dens == 0.85:
        # the documented default density (often not passed at all): not dyadic, so the required width stays strictly off the
        # budget (17/20 of a layer width that is a multiple of 20)
        lw = rng.choice([40, 60, 100, 120])
        budget = 17 * lw // 20
        target = budget + rng.choice([-0.5, -1, -3, 0.5, 1])
    target = round(target * 2) / 2.0        # required widths are multiples of 0.5
    rest = target - (n - 1) * ns
    if rest < n * 0.5:
        n = 3
        rest = target - (n - 1) * ns
    widths = [0.5] * n
    left = rest - 0.5 * n
    k = 0
    while left > 1e-9:
        add = min(left, rng.choice([0.5, 1, 2.5, 4]))
        widths[k % n] += add
        left -= add
        k += 1
    mn = rng.choice([0, 10, -5.5])
    labels = [[half(rng, mn, mn + lw), w] for w in widths]
    opts = {"nodeSpacing": ns, "algorithm": rng.choice(["overlap", "simple"]), "density": dens, "stubWidth": rng.choice([0, 1]),
            "minPos": mn, "maxPos": mn + lw}
    return {"labels": labels, "opts": opts}


def gen_wallpress(rng):
    """Many labels whose data positions all sit at one bound of a layer that FITS: the walls must not give way."""
    n = rng.choice([60, 110, 150, 190])
    w = rng.choice([1, 2, 4])
    ns = rng.choice([0, 1, 3])
    req = n * w + (n - 1) * ns
    mn = rng.choice([0, -50])
    mx = mn + req + rng.choice([0, 1, 10, 100])
    at = rng.choice([mn, mx])
    labels = [[at + rng.choice([0, 0, 0.5, -0.5, 1]), w] for _ in range(n)]
    opts = {"nodeSpacing": ns, "algorithm": "none", "density": 1, "stubWidth": 1, "minPos": mn, "maxPos": mx}
    return {"labels": labels, "opts": opts}


def run_siblings(rng):
    """Several INDEPENDENT layouts in one process - separate engines, separate Node objects, the same options - whose label sets
    differ in one or two data positions only (so that whole layers recur with other stub positions underneath): nothing that
    was solved for one may reach the next.  Every layout is recorded and judged on its own."""
    n = rng.randint(5, 16)
    span = rng.choice([40, 90, 200])
    wpool = rng.choice([[20], [10, 20, 25], [5, 37.5, 12], [8, 8, 30]])
    labels = [[half(rng, 0, span), rng.choice(wpool)] for _ in range(n)]
    ns = rng.choice([3, 3, 0, 1, 5])
    req = sum(w for _, w in labels) + (n - 1) * ns
    mn = rng.choice([0, 0, -10.5])
    opts = {"nodeSpacing": ns, "algorithm": rng.choice(["overlap", "simple", "simple"]), "density": rng.choice([0.85, 0.75, 1]),
            "stubWidth": rng.choice([1, 1, 0, 2.5]), "minPos": mn,
            "maxPos": mn + int(req * rng.choice([0.3, 0.45, 0.6, 0.9])) + rng.choice([0, 0.5])}
    out = []
    cur = [list(l) for l in labels]
    for step in range(rng.choice([2, 3, 4])):
        decoy = None
        if rng.random() < 0.6:
            decoy = [rng.choice([None, {}, "SAME", "SAME", {"maxPos": None}, {"maxPos": 5000, "minPos": -100, "density": 0.5, "nodeSpacing": 9,
                                                             "algorithm": "simple", "stubWidth": 7}]),
                     rng.choice([None, {"maxPos": None}, {"density": 1, "maxPos": 100000}, {"nodeSpacing": 11, "stubWidth": 5}])]
        out.append(run_instance({"labels": [list(l) for l in cur], "opts": dict(opts), "decoy": decoy}, 4, True))
        nxt = [list(l) for l in cur]
        for _ in range(rng.choice([1, 1, 2])):
            k = rng.randrange(n)
            nxt[k][0] = max(0.0, nxt[k][0] + rng.choice([-1, 1]) * rng.choice([0.5, 2, 5, 10, 15]))
        cur = nxt if rng.random() < 0.8 else [list(l) for l in labels]
    return out


def gen_far(rng):
    """An ordinary half-unit instance translated to coordinates of the order of 1e7 .. 1e13 (time stamps in seconds, milliseconds
    or microseconds used as positions): same widths and spacings, positions base + small.  Bounds, when present, sit at the same
    magnitude.  Records are projected relative to the base (the predicates are translation invariant; all values are exactly
    representable floats)."""
    inst = gen_random(rng, "random")
    if len(inst["labels"]) > 25:
        inst["labels"] = inst["labels"][:25]
    base = rng.choice([10 ** 7, 10 ** 9, 1700000000, 10 ** 10, 10 ** 12, 1700000000000, 10 ** 13])
    inst["labels"] = [[base + a, w] for a, w in inst["labels"]]
    o = inst["opts"]
    walls = rng.random() < 0.5
    for k in ("minPos", "maxPos"):
        if o.get(k) is not None:
            o[k] = (base + o[k]) if walls else None
    if not walls and rng.random() < 0.5:
        o["minPos"] = 0            # the documented default: a lower bound far to the left
    inst["base"] = base
    return inst


def gen_offscreen(rng):
    """A crowd of labels whose data positions lie far outside the bounds (events scrolled off the screen of a zoomed timeline:
    the walls hold them at the edge at an enormous displacement cost) plus a few ordinary pairs that are slightly too close."""
    k = rng.choice([60, 100, 150])
    far = rng.choice([-200000, -50000, 1000000])
    w = rng.choice([10, 4])
    ns = rng.choice([3, 1, 0])
    labels = [[far + rng.randint(-40, 40) / 2.0, w] for _ in range(k)]
    base = 2500 if far < 0 else 100
    for j in range(rng.randint(2, 5)):
        x = base + 200 * j
        labels += [[x, w], [x + w + ns - rng.choice([2, 1, 0.5]), w]]
    rng.shuffle(labels)
    opts = {"nodeSpacing": ns, "algorithm": "none", "density": 1, "stubWidth": 1, "minPos": 0,
            "maxPos": None if far < 0 else rng.choice([None, 6000])}
    if far > 0 and opts["maxPos"] is None:
        opts["maxPos"] = 6000
    return {"labels": labels, "opts": opts}


def gen_centi(rng):
    """Values with two decimals (what a scale hands over is not on the half-unit lattice): exact in units of 1/200, so the
    optimum is still decided exactly.  Sizes stay inside the 32-bit envelope of the pool-adjacent-violators products."""
    if rng.random() < 0.2:
        # a long row in which every neighbouring pair is short of its gap by a hair (0.01): each single merge changes the cost by
        # less than 1e-4, the optimum spreads the whole row (by 0.3 at its ends: visible after rounding for some of the labels)
        n = rng.randint(52, 64)
        w = rng.choice([10, 12.5])
        ns = rng.choice([3, 0, 1.01])
        # (the solver merges one constraint per pass; the third pass changes the cost by 1.5 * short^2, which is below 1e-4 only
        #  for a shortfall under 0.008: 0.005 is one unit of this lattice)
        short = rng.choice([0.005, 0.005, 0.01])
        x0 = rng.choice([37.13, 0.29, 5.67, 81.41, 12.345])
        labels = [[round(x0 + i * (w + ns - short), 3), w] for i in range(n)]
        return {"labels": labels, "opts": {"nodeSpacing": ns, "algorithm": "none", "density": 1, "stubWidth": 1,
                                           "minPos": rng.choice([None, None, -50.5]), "maxPos": None}}
    n = rng.randint(1, 26)
    span = rng.choice([30, 100, 400, 900])
    c = lambda lo, hi: rng.randint(int(lo * 100), int(hi * 100)) / 100.0
    labels = [[c(0, span), rng.choice([c(1, 60), c(1, 60), 37.5, 10, 12.34])] for _ in range(n)]
    if rng.random() < 0.3:
        for _ in range(n // 3):
            a, b = rng.randrange(n), rng.randrange(n)
            labels[a] = list(labels[b])
    mn = rng.choice([0, 0, None, 12.3, -7.77])
    opts = {"nodeSpacing": rng.choice([3, 3, 0.7, 4.25, 0, 1.01]), "algorithm": rng.choice(["overlap", "overlap", "simple", "none"]),
            "density": rng.choice([0.75, 0.85, 0.5, 1]), "stubWidth": rng.choice([1, 0.5, 1.25, 0]),
            "minPos": mn, "maxPos": rng.choice([None, None, 360.0, 400, 904.4, 150.05])}
    if opts["maxPos"] is not None and mn is not None and rng.random() < 0.2:
        req = sum(w for _, w in labels) + (n - 1) * opts["nodeSpacing"]
        opts["maxPos"] = round(mn + req + rng.choice([0, 0.01, -0.01, 0.5, 7.77]), 2)
        opts["algorithm"] = "none"
    return {"labels": labels, "opts": opts}


def gen_float(rng):
    n = rng.randint(1, 30)
    span = rng.choice([50, 400, 1000])
    labels = [[rng.uniform(0, span), rng.choice([rng.uniform(1, 60), 37.5, 10])] for _ in range(n)]
    opts = {"nodeSpacing": rng.choice([3, 3, 0.7, 4.25]), "algorithm": rng.choice(["overlap", "simple", "none"]),
            "density": rng.choice([0.75, 0.85]), "stubWidth": rng.choice([1, 0.5]),
            "minPos": rng.choice([0, None, 12.3]), "maxPos": rng.choice([None, 360.0, 400, 904.4])}
    return {"labels": labels, "opts": opts}


def main():
    job = json.load(sys.stdin)
    rng = random.Random(job["seed"])
    mode = job["mode"]
    recs = []
    errors = []
    if mode == "lattice":
        for inst in lattice_instances(job["maxn"], job["stride"], job["offset"]):
            recs.append(run_instance(inst, 4, True))
    elif mode == "instances":
        for inst in job["instances"]:
            recs.append(run_instance(inst, inst.get("U", 4), inst.get("lattice", True)))
    elif mode == "direct":
        while len(recs) < job["count"]:
            recs += run_direct(rng)
    elif mode == "sibling":
        while len(recs) < job["count"]:
            recs += run_siblings(rng)
    else:
        while len(recs) < job["count"]:
            if mode == "float":
                r = run_instance(gen_float(rng), 1000, False)
            elif mode == "offscreen":
                r = run_instance(gen_offscreen(rng), 4, True)
            elif mode == "far":
                r = run_instance(gen_far(rng), 4, True)
            elif mode == "centi":
                r = run_instance(gen_centi(rng), 200, True)
            elif mode == "relayout":
                r = run_relayout(rng)
            elif mode == "bounds":
                r = run_instance(gen_bounds(rng) if rng.random() < 0.9 else gen_wallpress(rng), 4, True)
            elif mode == "budget":
                r = run_instance(gen_budget(rng), 4, True)
            else:
                r = run_instance(gen_random(rng, mode), 4, True)
            recs.append(r)
    errors = [r for r in recs if "error" in r]
    recs = [r for r in recs if "error" not in r]
    json.dump({"records": recs, "errors": errors}, sys.stdout)


if __name__ == "__main__":
    main()
