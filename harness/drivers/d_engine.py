# -*- coding: utf-8 -*-
"""Driver for C06: plays call histories on one real labella Force and records, for every
compute(), the observed layout and the layout of a fresh engine on fresh labels.

stdin : {"histories": [[action, ...], ...]?, "random": {"seed", "count"}?, "sets": {...}?}
actions: "N:A" "N:B" "N:PA" "N:PB" (set labels; P* = permuted presentation of the same objects),
         "M:A" "M:B" (the label OBJECTS of a set get their other measurements assigned: width / idealPos),
         "O:d1".."O:d5" (set_options delta), "C" (compute), "F:A" "F:B" (another engine lays them out)
"""
import json
import random
import sys
from fractions import Fraction

from labella.force import Force
from labella.node import Node

# the same table as DeltaOf / Opt0 in spec/Engine.tla (mx = 0 stands for maxPos None)
OPT0 = {"mx": 0, "mn": 0, "ns": 3, "alg": "overlap", "sw": 1, "dn": 85}
DELTAS = {"d1": {"mx": 8}, "d2": {"mx": 0}, "d3": {"ns": 1}, "d4": {"alg": "simple"}, "d5": {"mx": 14, "sw": 0},
          "d6": {"mn": -1}, "d7": {"mn": 2, "mx": 12}, "d8": {"dn": 50, "mx": 10},
          "d9": {"mx": 1, "mn": 0}}
KEYMAP = {"mx": "maxPos", "mn": "minPos", "ns": "nodeSpacing", "alg": "algorithm", "sw": "stubWidth", "dn": "density"}

DEFAULT_SETS = {
    "A": [[1, 2], [1.5, 2], [2, 1], [2, 1], [4.5, 3.5]],
    "B": [[0, 1], [4, 2], [4, 2], [4.5, 1]],
}


# the second measurement of the default label sets (widths re-measured, one label moved); ties still share a width
DEFAULT_SETS2 = {
    "A": [[1, 1], [1.5, 2], [2, 3.5], [2, 3.5], [5, 2]],
    "B": [[0, 2], [4, 1], [4, 1], [3.5, 1]],
}


_ORDER = [0]


def to_force_opts(delta, scale):
    out = {}
    items = list(delta.items())
    _ORDER[0] += 1
    if _ORDER[0] % 2 == 0:           # the insertion order of an options dict is no input: every other dict is built backwards
        items.reverse()
    for k, v in items:
        if k == "mx":
            out["maxPos"] = None if v == 0 else v * scale
        elif k == "mn":
            out["minPos"] = None if v == -1 else v * scale
        elif k == "dn":
            out["density"] = v / 100.0
        else:
            out[KEYMAP[k]] = v
    return out


def fresh_nodes(labels):
    return [Node(a, w, {"i": i}) for i, (a, w) in enumerate(labels)]


def projection(nodes):
    """(idealPos, width) -> (layer, position); labels with equal (idealPos, width) are
    interchangeable, so the map is a sorted multiset.  Integers in quarter units."""
    out = []
    for n in nodes:
        vals = [Fraction(n.idealPos) * 4, Fraction(n.width) * 4, Fraction(n.currentPos) * 4]
        if any(v.denominator != 1 for v in vals):
            raise ValueError("non-lattice value")
        out.append([int(vals[0]), int(vals[1]), int(n.layerIndex), int(vals[2])])
    out.sort()
    return out


class Pristine(object):
    """Layouts computed with NO process history: a child forked before this driver has made a single library call serves requests,
    each in a grandchild of its own (so that nothing computed for one request can reach the next).  'A pure function of the
    labels and options' must not depend on what the process computed earlier."""

    def __init__(self):
        import os
        req_r, req_w = os.pipe()
        res_r, res_w = os.pipe()
        sys.stdout.flush()
        self.pid = os.fork()
        if self.pid == 0:
            os.close(req_w)
            os.close(res_r)
            fin = os.fdopen(req_r, "r")
            fout = os.fdopen(res_w, "w")
            for line in fin:
                r, w = os.pipe()
                c = os.fork()
                if c == 0:
                    os.close(r)
                    try:
                        job = json.loads(line)
                        g = Force(job["opts"])
                        fresh = fresh_nodes(job["labels"])
                        g.nodes(fresh)
                        g.compute()
                        out = {"ref": projection(fresh), "err": ""}
                    except BaseException as ex:
                        out = {"ref": [], "err": type(ex).__name__}
                    os.write(w, json.dumps(out).encode())
                    os._exit(0)
                os.close(w)
                data = b""
                while True:
                    chunk = os.read(r, 1 << 16)
                    if not chunk:
                        break
                    data += chunk
                os.close(r)
                os.waitpid(c, 0)
                fout.write(data.decode() + "\n")
                fout.flush()
            os._exit(0)
        os.close(req_r)
        os.close(res_w)
        self.w = os.fdopen(req_w, "w")
        self.r = os.fdopen(res_r, "r")

    def layout(self, labels, opts):
        self.w.write(json.dumps({"labels": labels, "opts": opts}) + "\n")
        self.w.flush()
        line = self.r.readline()
        if not line:
            raise RuntimeError("pristine-process helper died")
        return json.loads(line)

    def close(self):
        import os
        self.w.close()
        os.waitpid(self.pid, 0)


PRISTINE = None


def play(history, sets, perms, scale, sets2=None):
    sets2 = sets2 or sets
    ver = {k: 1 for k in sets}
    cur = lambda k: sets[k] if ver[k] == 1 else sets2[k]
    objs = {k: fresh_nodes(v) for k, v in sets.items()}
    cfgdict = to_force_opts(OPT0, scale)
    f = Force(cfgdict)
    twin = Force(cfgdict)          # a second engine built from the very same dict object: engines share nothing
    acc = dict(OPT0)
    loaded = None
    ev = []
    for a in history:
        e = {"a": a[0], "x": a[2:]}
        if a.startswith("N:"):
            s = a[2:]
            base = s[1:] if s.startswith("P") else s
            lst = list(objs[base])
            if s.startswith("P"):
                lst = [lst[i] for i in perms[s]]
            f.nodes(lst)
            loaded = (s, base, lst)
        elif a.startswith("O:"):
            d = DELTAS[a[2:]]
            f.set_options(to_force_opts(d, scale))
            acc.update(d)
        elif a.startswith("X:"):
            twin.set_options(to_force_opts(DELTAS[a[2:]], scale))       # the OTHER engine is re-configured
        elif a.startswith("M:"):
            k = a[2:]
            ver[k] = 3 - ver[k]
            for node, (pos, w) in zip(objs[k], cur(k)):
                node.idealPos = pos
                node.width = w
        elif a.startswith("F:"):
            g = Force({"maxPos": 6 * scale, "algorithm": "simple", "nodeSpacing": 0, "stubWidth": 2})
            g.nodes(list(reversed(objs[a[2:]])))
            g.compute()
        elif a == "C":
            s, base, lst = loaded
            err = ""
            res = ref = []
            try:
                f.compute()
                res = projection(lst)
                g = Force(to_force_opts(acc, scale))
                fresh = fresh_nodes(cur(base))
                g.nodes(fresh)
                g.compute()
                ref = projection(fresh)
            except Exception as ex:  # totality is C11's matter; here it is reported, not hidden
                err = type(ex).__name__
            ref0 = PRISTINE.layout(cur(base), to_force_opts(acc, scale)) if PRISTINE is not None else {"ref": ref, "err": ""}
            e.update({"res": res, "ref": ref, "err": err, "ref0": ref0["ref"], "err0": ref0["err"], "ver": ver[base],
                      "cfg": {"base": base, "mx": acc["mx"], "mn": acc["mn"], "ns": acc["ns"], "alg": acc["alg"], "sw": acc["sw"], "dn": acc["dn"]}})
        ev.append(e)
    return {"ev": ev, "sets": sets, "sets2": sets2, "scale": scale}


def half(rng, lo, hi):
    return rng.randint(int(lo * 2), int(hi * 2)) / 2.0


def random_case(rng):
    scale = rng.choice([1, 5, 20])
    sets = {}
    for name in ("A", "B"):
        n = rng.randint(1, 40 if scale > 1 else 8)
        span = rng.choice([6, 14, 40]) * scale
        labels = [[half(rng, 0, span), rng.choice([0.5, 1, 2, 3.5, 6])] for _ in range(n)]
        # ties share a width (the property's proviso): copy whole labels
        for _ in range(n // 3):
            a, b = rng.randrange(n), rng.randrange(n)
            labels[a] = list(labels[b])
        # the property's proviso: labels that share a data position also share a width
        first = {}
        for lab in labels:
            lab[1] = first.setdefault(lab[0], lab[1])
        sets[name] = labels
    # second measurement: about half of the labels get another width, a few move; ties (before and after) share a width
    sets2 = {}
    for name in ("A", "B"):
        labels2 = []
        for pos, w in sets[name]:
            r = random.Random("%r/%r/%r" % (pos, w, scale))          # the same change for labels that are interchangeable
            if r.random() < 0.5:
                w = r.choice([0.5, 1, 2, 3.5, 6])
            if r.random() < 0.2:
                pos = pos + r.choice([-1.5, 0.5, 3]) * scale
            labels2.append([pos, w])
        first = {}
        for lab in labels2:
            lab[1] = first.setdefault(lab[0], lab[1])
        sets2[name] = labels2
    perms = {}
    for name in ("A", "B"):
        p = list(range(len(sets[name])))
        rng.shuffle(p)
        perms["P" + name] = p
    alphabet = ["N:A", "N:B", "N:PA", "N:PB", "O:d1", "O:d2", "O:d3", "O:d4", "O:d5", "O:d6", "O:d7", "O:d8", "C", "C", "C", "C", "F:A", "F:B",
                "M:A", "M:B", "X:d1", "X:d3", "X:d6", "X:d8"]
    h = [rng.choice(["N:A", "N:B", "N:PA"])]
    for _ in range(rng.randint(2, 11)):
        h.append(rng.choice(alphabet))
    h.append("C")
    return h, sets, perms, scale, sets2


def main():
    global PRISTINE
    job = json.load(sys.stdin)
    PRISTINE = Pristine()          # before the first library call of this process
    out = []
    if job.get("histories"):
        sets = job.get("sets") or DEFAULT_SETS
        sets2 = job.get("sets2") or (DEFAULT_SETS2 if sets is DEFAULT_SETS else sets)
        perms = {"PA": list(reversed(range(len(sets["A"])))), "PB": list(reversed(range(len(sets["B"]))))}
        for h in job["histories"]:
            out.append(play(h, sets, perms, 1, sets2))
    if job.get("random"):
        rng = random.Random(job["random"]["seed"])
        for _ in range(job["random"]["count"]):
            h, sets, perms, scale, sets2 = random_case(rng)
            out.append(play(h, sets, perms, scale, sets2))
    PRISTINE.close()
    json.dump({"records": out}, sys.stdout)


if __name__ == "__main__":
    main()
