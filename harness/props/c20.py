# -*- coding: utf-8 -*-
"""C20 - per-label TeX names are unique and colour conversions agree."""
import json

import core


def run(ctx):
    quick = ctx.tier == "quick"
    ctx.rule = ("names: int2name(0..N) in blocks of 500 consecutive indices (N = 1 000 000 in the thorough tier; quick: all of 0..60 000, the windows around the first 5-letter name and the end of the range, 40 seeded windows), each block anchored at the spec's "
                "Name(i0) and chained by the shortlex successor; colours: all 22^3 three-digit codes with and without '#', every value of every "
                "channel of six-digit codes in both cases, and seeded structured six-digit codes; distinct by input; non-trivial = every record")
    ctx.assumptions += ["the full 16.7 M six-digit sweep is not run: the conversion is channel-wise, every channel value and case is covered"]
    ctx.model("MCNames", "MCNames_quick.cfg" if quick else "MCNames_thorough.cfg", workers=core.NCPU, heap="4g",
              label="NameOrder / Increasing for every index; byte <-> hex digits bijection")
    maxi = 60000 if quick else 1000000
    blocks = [[i0, min(500, maxi + 1 - i0)] for i0 in range(0, maxi + 1, 500)]
    if quick:
        # the rest of the quantifier's range (to 10^6): the windows around the first 5-letter name, the very end, and seeded windows
        import random
        rng = random.Random(ctx.seed * 31 + 7)
        blocks += [[475254 - 250, 500], [1000000 - 499, 500]] + [[rng.randrange(60001, 999500), 500] for _ in range(40)]
    jobs = []
    per = (len(blocks) + core.NCPU - 1) // core.NCPU
    for k in range(core.NCPU):
        job = {"seed": ctx.seed * 3 + k, "name_blocks": blocks[k * per:(k + 1) * per],
               "hex3": [core.NCPU * (1 if not quick else 1), k],
               "hex6_structured": (4000 if quick else 200000) // core.NCPU, "texnames": 6 if quick else 60}
        if k == 0:
            job["hex6_channels"] = True
        jobs.append({"script": "d_names.py", "stdin_obj": job})
    recs = []
    for out in core.run_drivers_parallel(jobs):
        recs += out["records"]
    fails = ctx.validate("NamesTrace", "NamesTrace.cfg", recs, per_shard=1500, heap="3g")
    for idx, inv in fails:
        rec = recs[idx]
        if not inv.startswith("C20_"):
            raise core.MachineryError("spec-side invariant %s failed" % inv)
        what = ("i0=%d" % rec["i0"]) if rec["kind"] == "names" else (("n=%d" % rec["n"]) if rec["kind"] == "texnames" else ("code=%s" % "".join(map(chr, rec["code"]))))
        ctx.report("%s kind=%s" % (inv, rec["kind"]), what, {"record": rec if rec["kind"] != "names" else {"kind": "names", "i0": rec["i0"], "n": len(rec["names"])}})
    ctx.extra["tikz_exports_with_macro_names_checked"] = sum(1 for r in recs if r["kind"] == "texnames")
    ctx.evaluations += sum(len(r["names"]) if r["kind"] == "names" else 1 for r in recs)
    ctx.nontrivial += sum(len(r["names"]) if r["kind"] == "names" else 0 for r in recs) + len({json.dumps(r["code"]) for r in recs if r["kind"] == "hex"})
    ctx.extra["names_checked"] = sum(len(r["names"]) for r in recs if r["kind"] == "names")
    ctx.extra["colour_codes_checked"] = sum(1 for r in recs if r["kind"] == "hex")
    ctx.sample({"kind": "names", "i0": recs[0]["i0"], "first": recs[0]["names"][:3]} if recs[0]["kind"] == "names" else recs[0])
    ctx.sample([r for r in recs if r["kind"] == "hex"][5])


def replay(path):
    d = json.load(open(path))
    rec = d["replay"]["record"]
    if rec["kind"] == "names":
        out = core.run_driver("d_names.py", stdin_obj={"name_blocks": [[rec["i0"], rec["n"]]]})
    else:
        code = "".join(map(chr, rec["code"]))
        out = {"records": [rec]}
    fails, _ = core.validate_records("NamesTrace", "NamesTrace.cfg", out["records"])
    for idx, inv in fails:
        print("VIOLATION property=C20 replay=%s\n  clause: %s" % (path, inv))
    return 1 if fails else 0
