# -*- coding: utf-8 -*-
"""Shared by C12, C13, C14: LinearScale records validated with spec/LinTrace.tla."""
import json

import core


def gather_ticks(ctx):
    quick = ctx.tier == "quick"
    jobs = []
    stride = core.NCPU * (6 if quick else 1)
    for k in range(core.NCPU):
        jobs.append({"script": "d_linscale.py", "stdin_obj": {
            "mode": "ticks", "seed": ctx.seed * 31 + k, "count": (1600 if quick else 24000) // core.NCPU,
            "lattice": {"lo": -12, "hi": 12, "offset": (k * (stride // core.NCPU) + ctx.seed) % stride, "stride": stride,
                        "ms": [1, 2, 3, 5, 7, 10, 13, 20, 37, 50, 100], "exps": [-6, -4, -2, -1, 0, 1, 3, 6, 9]}}})
    # inputs of known findings are replayed on every run (F-14L)
    jobs[0]["stdin_obj"]["pinned"] = [[1.049021664497022e-06, 1.0451906509858624e-06, 1]]
    recs = []
    disc = 0
    for out in core.run_drivers_parallel(jobs):
        recs += out["records"]
        disc += out["discarded"]
    return recs, disc


def check(ctx, cfg, recs, prefix, module="LinTrace", **kw):
    fails = ctx.validate(module, cfg, recs, **kw)
    for idx, inv in fails:
        rec = recs[idx]
        if not inv.startswith(prefix):
            raise core.MachineryError("spec-side invariant %s failed: %s" % (inv, json.dumps(rec)[:600]))
        ctx.report("%s kind=%s" % (inv, rec.get("kind", "hist")), json.dumps(rec)[:300], {"record": rec})
    return fails
