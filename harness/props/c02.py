# -*- coding: utf-8 -*-
"""C02 - labels are displaced as little as possible (least-squares optimal placement)."""
import core
from props import layout_common as lc


def run(ctx):
    quick = ctx.tier == "quick"
    ctx.rule = ("lattice-valued layouts (exhaustive lattice strided, random, dense, synthesised bounds); every layer that fits "
                "is compared with the exact optimum computed by TLC (pool-adjacent-violators + wall clipping, KKT-certified per record); "
                "non-trivial = a layer in which some item was moved")
    ctx.assumptions += ["non-lattice float inputs are not compared with the optimum (only lattice values are exact in TLC)",
                        "for tied targets of different widths the solver's chain order (Force.getLayers list order) is the order of the constraint chain"]
    ctx.model("MCChain", "MCChain_free_q.cfg" if quick else "MCChain_free.cfg", workers=core.NCPU, heap="4g",
              label="oracle = Vpsc.tla fix-point on every wall-free chain; not moved when there is room")
    ctx.model("MCChain", "MCChain_walls_q.cfg" if quick else "MCChain_walls.cfg", workers=core.NCPU, heap="4g",
              label="oracle KKT with walls")
    recs, meta, errors = lc.gather(ctx, ["random", "dense", "bounds", "relayout", "direct"])
    lc.report_errors(ctx, errors, "C02_")
    lc.check(ctx, "LayoutC02.cfg", recs, meta, "C02_", per_shard=100)
    ctx.evaluations += len(recs)
    ctx.nontrivial += len({lc.keyof(r) for r in recs if lc.moved(r)})
    ctx.extra["layers_checked"] = sum(len(r["layers"]) for r in recs)
    for r, m in zip(recs, meta):
        if m == "random" and lc.moved(r) and len(r["labels"]) <= 5:
            ctx.sample({"kind": m, "record": r})
            break


def replay(path):
    return lc.replay(path, "LayoutC02.cfg")
