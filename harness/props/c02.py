# -*- coding: utf-8 -*-
"""C02 - labels are displaced as little as possible (least-squares optimal placement)."""
import core
from props import layout_common as lc


def run(ctx):
    quick = ctx.tier == "quick"
    ctx.rule = ("lattice-valued layouts (exhaustive lattice strided, random, dense, synthesised bounds); every layer that fits "
                "is compared with the exact optimum computed by TLC (pool-adjacent-violators + wall clipping, KKT-certified per record); "
                "non-trivial = a layer in which some item was moved")
    ctx.assumptions += ["non-lattice float inputs are not compared with the optimum (only lattice values are exact in TLC)",
                        "for tied targets of different widths the solver's chain order (Force.getLayers list order) is the order of the constraint chain"]
    ctx.model("MCChain", "MCChain_free_q.cfg" if quick else "MCChain_free.cfg", workers=core.NCPU, heap="4g",
              label="oracle = Vpsc.tla fix-point on every wall-free chain; not moved when there is room")
    ctx.model("MCChain", "MCChain_walls_q.cfg" if quick else "MCChain_walls.cfg", workers=core.NCPU, heap="4g",
              label="oracle KKT with walls")
    recs, meta, errors = lc.gather(ctx, ["random", "dense", "bounds", "centi", "sibling", "far", "relayout", "direct"])
    lc.report_errors(ctx, errors, "C02_")
    lc.check(ctx, "LayoutC02.cfg", recs, meta, "C02_", per_shard=100)
    ctx.evaluations += len(recs)
    ctx.nontrivial += len({lc.keyof(r) for r in recs if lc.moved(r)})
    ctx.extra["layers_checked"] = sum(len(r["layers"]) for r in recs)
    end_to_end(ctx, recs)
    for r, m in zip(recs, meta):
        if m == "random" and lc.moved(r) and len(r["labels"]) <= 5:
            ctx.sample({"kind": m, "record": r})
            break


def end_to_end(ctx, recs):
    """The composed operational model (spec/Layout.tla: Distributor -> per-layer optimum -> rounding, with the list order, the stable
    sort by target, round-half-even and the way a wall gives way) predicts the complete output of Force.compute() from labels and
    options alone; every fresh lattice layout is compared item by item.  Drift only."""
    import json
    quick = ctx.tier == "quick"
    # (far-away instances are left out: which way an exact half goes next to a wall is decided by float noise of the order of
    #  1e-10 at ordinary coordinates - that is what the model describes - and by much coarser noise at 1e9)
    sub = [r for r in recs if r["lattice"] == 1 and r.get("fresh") == 1 and r["U"] == 4 and not r.get("far")
           and len(r["labels"]) <= (14 if quick else 25)][::(2 if quick else 1)]
    res, st = core.validate_records("LayoutDrift", "LayoutDrift.cfg", sub, per_shard=300, heap="3g")
    ctx.states += st["distinct"]
    ctx.transitions += st["generated"]
    drift = sorted({i for i, inv in res if inv.startswith("Drift_")})
    partial = {i for i, inv in res if inv == "Info_FullyCompared"}
    ctx.extra["end_to_end_model_conformance"] = {
        "layouts_compared": len(sub), "predicted_completely_by_Layout.tla": len(sub) - len(partial - set(drift)) - len(drift),
        "predicted_up_to_an_ambiguous_layer": len(partial - set(drift)), "spec_drift": len(drift)}
    if drift:
        ctx.notes.append("spec drift: %d layouts are not reproduced by the end-to-end model (first: %s)"
                         % (len(drift), json.dumps({k: sub[drift[0]][k] for k in ("opts", "labels")})[:400]))


def replay(path):
    return lc.replay(path, "LayoutC02.cfg")
