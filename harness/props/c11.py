# -*- coding: utf-8 -*-
"""C11 - export succeeds on every documented input."""
import json

import core


def run(ctx):
    quick = ctx.tier == "quick"
    ctx.rule = ("descriptor space {count 1/2/5/40} x {numeric, date, time, datetime} x {distinct, all equal, unsorted} x 8 span classes (0, 7-9 ms, 1 s, "
                "a day, across a month end, leap day, year end, a century) x options {omitted, empty, partial} x direction x algorithm x bounds x ticks "
                "(every n-th descriptor, seeded concretisation), both back-ends, plus conflict clusters of 150 and 200 labels (200 is the edge of the claim), one of 400 (beyond it) and a timeline of 1000 labels (the largest count the claim names); "
                "non-trivial = every descriptor; distinct by descriptor")
    ctx.assumptions += ["labels carry explicit widths (no LaTeX in the sandbox)",
                        "datetime.time inputs are combined with today's date by the code; they are exercised but not compared across processes"]
    ctx.model("Pipeline", "MCPipeline.cfg", workers=core.NCPU, heap="4g", label="every valid descriptor reaches 'emitted' (no stuck stage), liveness")
    ctx.model("Pipeline", "NegPipeline_degenerate.cfg", workers=4, expect_violation="Total",
              label="negative self-test: without the degenerate-domain rule single-datum descriptors get stuck")
    stride = core.NCPU * (5 if quick else 1)
    jobs = []
    for k in range(core.NCPU):
        job = {"seed": ctx.seed * 7 + k, "mode": "total", "stride": stride, "offset": (k * (stride // core.NCPU) + ctx.seed) % stride,
               "reps": 1 if quick else 2}
        if k == 0:
            job["clusters"] = [[200, "c200"], [400, "c400"]]      # 200: the edge of the claim; 400: beyond it (known finding)
        if k == 1:
            job["clusters"] = [[150, "c150"]] if quick else [[190, "c190"], [150, "c150"], [199, "c199"]]
        if k == 2:
            job["clusters"] = [[1000, "n1000"]]                   # the largest label count the claim names
        if k == 3 and not quick:
            job["clusters"] = [[703, "n703"], [1000, "n1000"]]
        jobs.append({"script": "d_timeline.py", "stdin_obj": job})
    recs = []
    for out in core.run_drivers_parallel(jobs):
        recs += out["records"]
    fails = ctx.validate("TotalTrace", "TotalTrace.cfg", recs, per_shard=400)
    for idx, inv in fails:
        rec = recs[idx]
        if not inv.startswith("C11_"):
            raise core.MachineryError("descriptor not in the model's space: %s" % json.dumps(rec["desc"]))
        d = rec["desc"]
        ctx.report("%s svg=%s tikz=%s where=%s cluster=%s" % (inv, rec["svg"], rec["tikz"], rec["where"], d["cluster"]),
                   json.dumps(d), {"record": rec})
    ctx.evaluations += 2 * len(recs)
    ctx.nontrivial += len({json.dumps(r["desc"], sort_keys=True) for r in recs})
    ctx.extra["descriptors"] = len(recs)
    ctx.sample(recs[0])
    ctx.sample(recs[-1]["desc"])


def replay(path):
    d = json.load(open(path))
    fails, _ = core.validate_records("TotalTrace", "TotalTrace.cfg", [d["replay"]["record"]])
    for idx, inv in fails:
        print("VIOLATION property=C11 replay=%s\n  clause: %s (recorded outcome re-validated)" % (path, inv))
    return 1 if fails else 0
