# -*- coding: utf-8 -*-
"""C12 - the linear scale is the affine map through its domain and range end points."""
import json
import os
import re
import shutil
import tempfile

import core
from props import lin_common as lc


def tlc_histories(ctx, maxlen):
    tmp = tempfile.mkdtemp(prefix="vlin_")
    try:
        cfg = os.path.join(tmp, "gen.cfg")
        src = re.sub(r"MaxLen = \d+", "MaxLen = %d" % maxlen, open(os.path.join(core.SPEC, "MCLinScale.cfg")).read())
        open(cfg, "w").write(src)
        ctx.model("LinScale", cfg, workers=8, heap="4g", dump=[os.path.join(tmp, "d.dump")],
                  label="all call histories up to length %d on <= 3 scales: EndpointsMap, CopyIndependent" % maxlen)
        text = open(os.path.join(tmp, "d.dump")).read()
    finally:
        shutil.rmtree(tmp, ignore_errors=True)
    hs = core.parse_history_dump(text)
    return hs


def run(ctx):
    quick = ctx.tier == "quick"
    ctx.rule = ("functional laws: every (a != b, r0, r1, x) of an integer grid embedded at decades 1e-6..1e9 plus random non-lattice floats for "
                "exact end points; histories: every maximal history of the heap model LinScale.tla (TLC dump) replayed on real scales plus "
                "random histories of 3..15 calls; non-trivial = history with a copy followed by a mutation, or a non-clamped map record")
    ctx.assumptions += ["floats of map records are carried as exact integers in units of 1e-12 of their decade (BigNat); tolerance 1e-9 of the "
                        "range decade times the extrapolation factor", "float behaviour is reached only through embedded lattice instances and samples"]
    ctx.model("LinScale", "NegLinScale_sharedlists.cfg", workers=2, expect_violation="EndpointsMap",
              label="negative self-test: copy() sharing the lists breaks EndpointsMap after Copy;Nice")
    ctx.model("LinScale", "NegLinScale_sameobject.cfg", workers=2, expect_violation="EndpointsMap",
              label="negative self-test: a range() that returns early when it is handed the list object it already holds leaves the map stale after the caller edited that list")
    ctx.model("LinScale", "NegLinScale_keeplist.cfg", workers=2, expect_violation="EndpointsMap",
              label="negative self-test: a domain setter that keeps the caller's list aliases two scales (DomainFrom;Nice)")
    maxlen = 4 if quick else 5
    hs = tlc_histories(ctx, maxlen)
    leaves = [h for h in hs if len(h) == maxlen]
    if not quick:
        leaves = leaves[(ctx.seed % 4)::4]
    ctx.extra["tlc_histories"] = len(hs)
    jobs = []
    per = (len(leaves) + core.NCPU - 1) // core.NCPU
    for k in range(core.NCPU):
        chunk = leaves[k * per:(k + 1) * per]
        jobs.append({"script": "d_linscale.py", "stdin_obj": {"mode": "hist", "seed": ctx.seed * 13 + k, "histories": chunk,
                                                             "count": (320 if quick else 6400) // core.NCPU}})
    recs = []
    for out in core.run_drivers_parallel(jobs):
        recs += out["records"]
    fails = ctx.validate("LinHistTrace", "LinHistTrace.cfg", recs, expect="init", per_shard=200)
    for idx, inv in fails:
        if not inv.startswith("C12_"):
            raise core.MachineryError("heap model does not explain history %s (%s)" % (json.dumps(recs[idx]["ev"])[:400], inv))
        acts = [e["a"] for e in recs[idx]["ev"]]
        ctx.report("%s history" % inv, " ".join("%s%d%s" % (e["a"], e["i"], e["x"]) for e in recs[idx]["ev"]), {"record": recs[idx]})
    ctx.evaluations += len(recs)
    nt = set()
    for r in recs:
        acts = "".join(e["a"] for e in r["ev"])
        if re.search(r"Y.*[DRKN]", acts):
            nt.add(json.dumps([[e["a"], e["i"], e["x"]] for e in r["ev"]]) + r["obs0"][0]["yp"] + r["ev"][-1]["obs"][0]["yp"])
    ctx.nontrivial += len(nt)
    ctx.sample({"history": [[e["a"], e["i"], e["x"]] for e in recs[0]["ev"]], "last_obs": recs[0]["ev"][-1]["obs"]})
    # functional laws
    jobs = []
    stride = core.NCPU * (4 if quick else 1)
    for k in range(core.NCPU):
        jobs.append({"script": "d_linscale.py", "stdin_obj": {
            "mode": "map", "seed": ctx.seed * 17 + k, "grid": 4 if quick else 6, "stride": stride,
            "offset": (k * (stride // core.NCPU) + ctx.seed) % stride, "count": (800 if quick else 16000) // core.NCPU}})
    mrecs = []
    for out in core.run_drivers_parallel(jobs):
        mrecs += out["records"]
    lc.check(ctx, "LinC12.cfg", mrecs, "C12_")
    ctx.evaluations += len(mrecs)
    ctx.nontrivial += len({json.dumps([r[k] for k in ("a", "b", "x", "e_d", "r0", "r1", "e_r")]) for r in mrecs
                           if r["kind"] == "map" and not r["clamp"]})
    ctx.sample(mrecs[0])


def replay(path):
    d = json.load(open(path))
    rec = d["replay"]["record"]
    if "ev" in rec:
        fails, _ = core.validate_records("LinHistTrace", "LinHistTrace.cfg", [rec], expect="init")
    else:
        fails, _ = core.validate_records("LinTrace", "LinC12.cfg", [rec])
    for idx, inv in fails:
        print("VIOLATION property=C12 replay=%s\n  clause: %s (recorded observation re-validated)" % (path, inv))
    return 1 if fails else 0
