# -*- coding: utf-8 -*-
"""C18 - results do not depend on the process's local time zone."""
import hashlib
import json

import core
from props import c17
from props import time_common as tc

# POSIX TZ strings (no dependency on tzdata)
ZONES = [("UTC", "UTC"),
         ("US-Eastern-DST", "EST5EDT,M3.2.0,M11.1.0"),
         ("India+5:30", "IST-5:30"),
         ("LordHowe+10:30/+11", "LHST-10:30LHDT-11,M10.1.0,M4.1.0"),
         ("Chatham+12:45/+13:45", "CHAST-12:45CHADT,M9.5.0/2:45,M4.1.0/3:45")]


def digest(rec):
    return hashlib.sha256(json.dumps(rec, sort_keys=True).encode()).hexdigest()


def run(ctx):
    quick = ctx.tier == "quick"
    ctx.rule = ("the calendar (C17), tick (C16), nice (C14), mapping (C15) and export (C07) drivers are run with the same seed in subprocesses under "
                "5 process time zones (UTC, US Eastern with DST, +5:30, Lord Howe +10:30/+11, Chatham +12:45/+13:45); one record per computation "
                "with the 5 output digests side by side; non-trivial = computations whose instant lies within 36 h of a DST change of one of the zones "
                "or uses a sub-day unit; distinct by inputs")
    ctx.assumptions += ["POSIX TZ strings stand for the zones (rules of 2007+/current, applied to all years)", "locale fixed to C"]
    ctx.model("Tz", "MCTz.cfg", workers=1, label="zone-free conversions: hour floor, day step, elapsed time equal under all zones")
    ctx.model("Tz", "NegTz_localtime.cfg", workers=1, expect_violation="ZoneIndependent",
              label="negative self-test: mktime/localtime conversions depend on the zone")
    scale = 0.12 if quick else 0.5
    per_zone = {}
    for name, tz in ZONES:
        out = {}
        out["calendar"] = c17.gather(ctx, tz=tz, scale=scale)
        for mode in ("ticks", "nice", "map"):
            out[mode] = tc.gather(ctx, mode, tz=tz, scale=scale)
        out["export"] = export_records(ctx, tz)
        per_zone[name] = out
    # (b) every zone's records satisfy the zone-free predicates
    for name, tz in ZONES[1:]:
        c17.check(ctx, per_zone[name]["calendar"], pid="C18", zone=name)
        tc.check(ctx, "ticks", per_zone[name]["ticks"], "C16_", pid="C18", zone=name)
        tc.check(ctx, "nice", per_zone[name]["nice"], "C14_", pid="C18", zone=name)
        tc.check(ctx, "map", per_zone[name]["map"], "C15_", pid="C18", zone=name)
    # (a) side by side
    side = []
    detail = []
    for kind in ("calendar", "ticks", "nice", "map", "export"):
        n = len(per_zone["UTC"][kind])
        for name, _ in ZONES:
            if len(per_zone[name][kind]) != n:
                raise core.MachineryError("driver %s produced %d records under %s but %d under UTC"
                                          % (kind, len(per_zone[name][kind]), name, n))
        for i in range(n):
            side.append({"kind": kind, "zones": [z for z, _ in ZONES], "out": [digest(per_zone[z][kind][i]) for z, _ in ZONES]})
            detail.append((kind, i))
    fails = ctx.validate("ZoneTrace", "ZoneTrace.cfg", side, per_shard=20000)
    for idx, inv in fails:
        if not inv.startswith("C18_"):
            raise core.MachineryError("zone record malformed: %s" % json.dumps(side[idx]))
        kind, i = detail[idx]
        diff = [z for z, _ in ZONES if digest(per_zone[z][kind][i]) != digest(per_zone["UTC"][kind][i])]
        ctx.report("C18_ZoneIndependent kind=%s" % kind, "differs under %s: %s" % (diff, json.dumps(per_zone["UTC"][kind][i])[:300]),
                   {"kind": kind, "utc": per_zone["UTC"][kind][i], "other": {z: per_zone[z][kind][i] for z in diff[:2]}})
    ctx.evaluations += len(side) + sum(len(per_zone[z][k]) for z, _ in ZONES[1:] for k in ("calendar", "ticks", "nice", "map"))
    nt = 0
    for kind in ("calendar", "ticks", "nice", "map"):
        for rec in per_zone["UTC"][kind]:
            if kind != "calendar" or rec["u"] in ("second", "minute", "hour", "week"):
                nt += 1
    ctx.nontrivial += nt
    ctx.extra["zones"] = [z for z, _ in ZONES]
    ctx.extra["computations_side_by_side"] = len(side)
    ctx.sample(side[0])
    ctx.sample({"kind": "calendar", "utc_record": per_zone["UTC"]["calendar"][0]})


def export_records(ctx, tz):
    try:
        from props import timeline_common as tl
    except ImportError:
        return []
    return tl.zone_exports(ctx, tz)


def replay(path):
    print("C18 replays are re-run by the full check (the violation needs two processes in different zones)")
    return 0
