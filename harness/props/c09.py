# -*- coding: utf-8 -*-
"""C09 - the SVG and TikZ back-ends draw the same picture."""
import core
from props import timeline_common as tl


def run(ctx):
    ctx.rule = 'as C07 plus colour options as 3-digit hex, 6-digit hex, list, function and border on/off; non-trivial = at least one tick or link line segment; distinct by document digest'
    ctx.assumptions += ["coordinates are projected to integers x 1e5; exactly printed link points are compared as strings",
                        "labels carry explicit widths (no LaTeX here); the TeX rendering itself is not checked, only the emitted source",
                        "datasets whose export raises (C11's matter) are counted, not judged here"]
    ctx.model("MCRender", "MCRender.cfg", workers=core.NCPU, heap="4g",
              label="box placement per direction: separated layout + spacing >= 3 + gap >= 1 => disjoint, on side, layer order after truncation")
    ctx.model("MCRender", "NegRender_ns2.cfg", workers=4, expect_violation="Disjoint",
              label="negative self-test: with label spacing 2 truncation can make boxes touch")
    recs, errors = tl.gather(ctx, ns_min=0)
    ctx.extra["exports_that_raised"] = len(errors)
    tl.check(ctx, "DrawC09.cfg", recs, "C09_")
    frame_conformance(ctx, recs)
    render_conformance(ctx, recs)
    ctx.evaluations += 2 * len(recs)
    ctx.nontrivial += len({r["svg"]["sha"] for r in recs if max(n["layer"] for n in r["svg"]["nodes"]) > 0 or r["svg"]["n"] >= 2})
    small = [r for r in recs if r["svg"]["n"] <= 2]
    if small:
        ctx.sample({"svg": small[0]["svg"]})
    ctx.sample({"n": recs[0]["svg"]["n"], "dir": recs[0]["svg"]["dir"], "boxes": recs[0]["tikz"]["boxes"][:2], "links": recs[0]["tikz"]["links"][:1]})


def frame_conformance(ctx, recs):
    """spec/Frame.tla: document frame (size, margin and main-layer shifts, TikZ border) and tick decorations as a function of the
    options alone.  Outside the listed properties (C09 compares inside the main layer): drift only."""
    sub = [{"svg": {k: r["svg"][k] for k in ("opt", "frame", "dir", "L5", "dots")},
            "tikz": {k: r["tikz"][k] for k in ("opt", "frame", "dir", "L5", "dots")}} for r in recs if "frame" in r["svg"]]
    res, st = core.validate_records("Frame", "FrameDrift.cfg", sub, per_shard=400, heap="2g")
    ctx.states += st["distinct"]
    ctx.transitions += st["generated"]
    drift = sorted({i for i, inv in res})
    ctx.extra["frame_model_conformance"] = {"exports_compared": len(sub), "frame_and_decorations_as_Frame.tla": len(sub) - len(drift),
                                            "spec_drift": len(drift), "clauses": sorted({inv for i, inv in res})}
    if drift:
        ctx.notes.append("spec drift: %d exports do not have the document frame of spec/Frame.tla (%s)"
                         % (len(drift), ", ".join(sorted({inv for i, inv in res}))))


def render_conformance(ctx, recs):
    """spec/Render.tla: the printed origin of every box and every point of every link path (Bezier control points included) as the
    operational model of renderer.py / Timeline.nodePos predicts them from the layout.  Drift only."""
    keys = ("dir", "gap5", "nodeH5", "nodes", "boxes", "links")
    sub = [{"svg": {k: ([{"pts5": l["pts5"]} for l in r["svg"][k]] if k == "links" else r["svg"][k]) for k in keys},
            "tikz": {k: ([{"pts5": l["pts5"]} for l in r["tikz"][k]] if k == "links" else r["tikz"][k]) for k in keys}}
           for r in recs if max(abs(c) for b in ("svg", "tikz") for n in r[b]["nodes"] for c in n["chain5"] + [n["ideal5"]]) < 500000000]
    try:
        res, st = core.validate_records("Render", "RenderDrift.cfg", sub, per_shard=120, heap="3g")
    except core.MachineryError as ex:
        ctx.notes.append("render model conformance not evaluated: %s" % str(ex)[:300])
        return
    ctx.states += st["distinct"]
    ctx.transitions += st["generated"]
    drift = sorted({i for i, inv in res})
    ctx.extra["render_model_conformance"] = {"exports_compared": len(sub), "boxes_and_link_points_as_Render.tla": len(sub) - len(drift),
                                             "spec_drift": len(drift), "clauses": sorted({inv for i, inv in res})}
    if drift:
        ctx.notes.append("spec drift: %d exports are not drawn as spec/Render.tla predicts (%s)"
                         % (len(drift), ", ".join(sorted({inv for i, inv in res}))))


def replay(path):
    return tl.replay(path, "DrawC09.cfg", "C09")
