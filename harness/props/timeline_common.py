# -*- coding: utf-8 -*-
"""Shared by C07-C09 (and C18's exports): drawing records from d_timeline.py validated with spec/DrawTrace.tla."""
import json

import core


def gather(ctx, ns_min=0, tz="UTC", scale=1.0, gapfrac=0.12, timevals=True):
    quick = ctx.tier == "quick"
    cnt = int((960 if quick else 24000) * scale)
    jobs = [{"script": "d_timeline.py", "tz": tz,
             "stdin_obj": {"seed": ctx.seed * 9973 + k * 17 + ns_min, "mode": "draw", "count": max(1, cnt // core.NCPU), "ns_min": ns_min,
                           "gapfrac": gapfrac, "timevals": timevals, "pinned": k == 0}}
            for k in range(core.NCPU)]
    recs = []
    errors = []
    for out in core.run_drivers_parallel(jobs):
        recs += out["records"]
        errors += out["errors"]
    return recs, errors


def check(ctx, cfg, recs, prefix, zone=None):
    fails = ctx.validate("DrawTrace", cfg, recs, per_shard=120, heap="3g")
    for idx, inv in fails:
        rec = recs[idx]
        if not inv.startswith(prefix):
            raise core.MachineryError("spec-side invariant %s failed" % inv)
        s = rec["svg"]
        ctx.report("%s dir=%s scale=%s%s" % (inv, s["dir"], s["scale"], "" if zone is None else " zone=" + zone), "n=%d layers=%d" % (s["n"], 1 + max(n["layer"] for n in s["nodes"])),
                   {"record": rec})
    return fails


def zone_exports(ctx, tz):
    # (half of the time-scale drawings have data around the daylight-saving changes of the zones)
    recs, errors = gather(ctx, tz=tz, scale=0.12 if ctx.tier == "quick" else 0.1, gapfrac=0.5, timevals=False)
    return [{"svg": r["svg"]["sha"], "tikz": r["tikz"]["sha"]} for r in recs]


def replay(path, cfg, pid):
    d = json.load(open(path))
    fails, _ = core.validate_records("DrawTrace", cfg, [d["replay"]["record"]])
    for idx, inv in fails:
        print("VIOLATION property=%s replay=%s\n  clause: %s (recorded drawing re-validated)" % (pid, path, inv))
    return 1 if fails else 0
