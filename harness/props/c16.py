# -*- coding: utf-8 -*-
"""C16 - time ticks never fail, increase, stay in the domain, sit on calendar boundaries."""
import json

import core
from props import time_common as tc


def run(ctx):
    ctx.rule = ("(domain, m): curated start instants (month ends, 29 Feb, 31 Dec, DST dates, midnight +-1 ms, mid-day) x span ladder 1 ms..250 y x "
                "orientation x m in {2,3,5,10,20,50}, plus seeded random domains 1900-2199 biased to the last days of months; "
                "non-trivial = at least two ticks; distinct by (domain, m)")
    ctx.assumptions += ["instants are projected to <<day, ms, us>> with datetime arithmetic; calendar boundaries are decided by spec/Calendar.tla"]
    quick = ctx.tier == "quick"
    ctx.model("MCCalendar", "MCCalendar_quick.cfg", workers=core.NCPU, heap="4g", label="calendar model self-consistency (IsBoundary used by BoundaryClass)")
    ctx.model("MCTimeTicks", "MCTimeTicks_quick.cfg" if quick else "MCTimeTicks.cfg", workers=core.NCPU, heap="4g",
              label="operational tick method (bisect + geometric mean + range filter): ticks increasing, in domain, gap ratio <= 2, count bounds")
    ctx.model("MCTimeTicks", "NegTimeTicks_arith.cfg", workers=4, expect_violation="CountBound",
              label="negative self-test: choosing the step by the arithmetic mean breaks the count bound")
    recs = tc.gather(ctx, "ticks")
    tc.check(ctx, "ticks", recs, "C16_")
    # the process's local zone is no input of the property: slices of the same records are taken in a zone with DST and in
    # one whose offset is not a whole number of hours
    for zname, tz, sc in (("US-Eastern-DST", "EST5EDT,M3.2.0,M11.1.0", 0.2), ("India+5:30", "IST-5:30", 0.1)):
        zrecs = tc.gather(ctx, "ticks", tz=tz, scale=sc)
        tc.check(ctx, "ticks", zrecs, "C16_", zone=zname)
        ctx.evaluations += len(zrecs)
    # conformance of the operational model with the observed tick lists: drift is reported, never a verdict
    sub = [r for r in recs if not r["err"]][::(3 if quick else 1)]
    drift, st = core.validate_records("TimeDrift", "TimeDrift.cfg", sub, per_shard=800, heap="3g")
    ctx.states += st["distinct"]
    ctx.transitions += st["generated"]
    ctx.extra["operational_model_conformance"] = {"tick_lists_compared": len(sub), "explained_exactly_by_TimeTicks.tla": len(sub) - len(drift),
                                                  "spec_drift": len(drift)}
    if drift:
        ctx.notes.append("spec drift: %d tick lists are not reproduced by the operational model (first: %s)"
                         % (len(drift), json.dumps(sub[drift[0][0]])[:300]))
    ctx.evaluations += len(recs)
    ctx.nontrivial += len({json.dumps([r["dom"], r["m"]]) for r in recs if len(r["ticks"]) >= 2})
    ctx.sample([r for r in recs if 2 <= len(r["ticks"]) <= 4][0])
    ctx.extra["tick_lists_by_class_sample"] = len(recs)


def replay(path):
    return tc.replay(path, "C16")
