# -*- coding: utf-8 -*-
"""C15 - the time scale is affine in elapsed time and invertible."""
import json

import core
from props import time_common as tc


def run(ctx):
    ctx.rule = ("(domain, range, query pair): curated and random domains 1 ms..250 y in 1900-2199, five ranges of either orientation, queries at the "
                "end points, inside and up to 5 spans outside; non-trivial = query strictly inside or outside (not an end point); distinct by all inputs")
    ctx.assumptions += ["mapped floats are carried exactly as integers x 1e9 (BigNat); exact proportionality is cross-multiplied in BigNat on "
                        "milliseconds since the epoch; tolerance 1e-9 of the range magnitude times the extrapolation factor"]
    ctx.model("Tz", "MCTz.cfg", workers=1, label="zone-free conversions are affine by construction")
    ctx.model("Tz", "NegTz_localtime.cfg", workers=1, expect_violation="ZoneIndependent",
              label="negative self-test: local-time conversions are not proportional across a DST shift")
    recs = tc.gather(ctx, "map")
    tc.check(ctx, "map", recs, "C15_")
    ctx.evaluations += len(recs)
    ctx.nontrivial += len({json.dumps([r["dom"], r["t"], r["t2"], r["r0"], r["r1"]]) for r in recs if r["t"] not in (r["dom"][0] + [0], r["dom"][1] + [0])})
    ctx.sample(recs[0])


def replay(path):
    return tc.replay(path, "C15")
