# -*- coding: utf-8 -*-
"""C15 - the time scale is affine in elapsed time and invertible."""
import json

import core
from props import time_common as tc


def run(ctx):
    ctx.rule = ("(domain, range, query pair): curated and random domains 1 ms..250 y in 1900-2199, five ranges of either orientation, queries at the "
                "end points, inside and up to 5 spans outside; non-trivial = query strictly inside or outside (not an end point); distinct by all inputs; "
                "plus call histories (domain/range/clamp/nice/copy/ticks on up to 4 scales): every maximal history of the heap model's state graph and random ones")
    ctx.assumptions += ["mapped floats are carried exactly as integers x 1e9 (BigNat); exact proportionality is cross-multiplied in BigNat on "
                        "milliseconds since the epoch; tolerance 1e-9 of the range magnitude times the extrapolation factor"]
    ctx.model("Tz", "MCTz.cfg", workers=1, label="zone-free conversions are affine by construction")
    ctx.model("Tz", "NegTz_localtime.cfg", workers=1, expect_violation="ZoneIndependent",
              label="negative self-test: local-time conversions are not proportional across a DST shift")
    recs = tc.gather(ctx, "map")
    tc.check(ctx, "map", recs, "C15_")
    # the process's local zone is no input of the property: slices of the same records are taken in a zone with DST and in
    # one whose offset is not a whole number of hours
    for zname, tz, sc in (("US-Eastern-DST", "EST5EDT,M3.2.0,M11.1.0", 0.2), ("India+5:30", "IST-5:30", 0.1)):
        zrecs = tc.gather(ctx, "map", tz=tz, scale=sc)
        tc.check(ctx, "map", zrecs, "C15_", zone=zname)
        ctx.evaluations += len(zrecs)
    ctx.evaluations += len(recs)
    ctx.nontrivial += len({json.dumps([r["dom"], r["t"], r["t2"], r["r0"], r["r1"]]) for r in recs if r["t"] not in (r["dom"][0] + [0], r["dom"][1] + [0])})
    ctx.sample(recs[0])
    histories(ctx)


def histories(ctx):
    """every time scale, however it was obtained: call histories of the heap model replayed on real TimeScale objects"""
    from props import c12
    quick = ctx.tier == "quick"
    maxlen = 4 if quick else 5
    hs = c12.tlc_histories(ctx, maxlen)
    leaves = [h for h in hs if len(h) == maxlen]
    leaves = leaves[(ctx.seed % 3)::3] if quick else leaves[(ctx.seed % 2)::2]
    jobs = []
    per = (len(leaves) + core.NCPU - 1) // core.NCPU
    for k in range(core.NCPU):
        jobs.append({"script": "d_timescale.py", "stdin_obj": {"mode": "hist", "seed": ctx.seed * 19 + k, "histories": leaves[k * per:(k + 1) * per],
                                                              "count": (480 if quick else 8000) // core.NCPU}})
    recs = []
    for out in core.run_drivers_parallel(jobs):
        recs += out["records"]
    fails = ctx.validate("TimeHistTrace", "TimeHistTrace.cfg", recs, expect="init", per_shard=200)
    for idx, inv in fails:
        if not inv.startswith("C15_"):
            raise core.MachineryError("heap model does not explain history %s (%s)" % (json.dumps(recs[idx]["ev"])[:400], inv))
        ctx.report("%s history" % inv, " ".join("%s%d%s" % (e["a"], e["i"], e["x"]) for e in recs[idx]["ev"]), {"record": recs[idx]})
    drift, st = core.validate_records("TimeHistTrace", "TimeHistDrift.cfg", recs, expect="init", per_shard=200)
    ctx.states += st["distinct"]
    ctx.transitions += st["generated"]
    ctx.extra["history_conformance"] = {"histories_replayed_on_TimeScale_objects": len(recs), "from_TLC_state_graph": len(leaves),
                                        "explained_by_heap_model_LinScale.tla": len(recs) - len({i for i, _ in drift}),
                                        "spec_drift": len({i for i, _ in drift})}
    if drift:
        ctx.notes.append("spec drift: %d TimeScale histories are not explained by the heap model (first: %s: %s)" % (
            len(drift), drift[0][1], " ".join("%s%d%s" % (e["a"], e["i"], e["x"]) for e in recs[drift[0][0]]["ev"])))
    ctx.evaluations += len(recs)
    ctx.nontrivial += len({json.dumps([[e["a"], e["i"], e["x"]] for e in r["ev"]]) + r["ev"][-1]["obs"][0]["yp"] for r in recs
                           if any(e["a"] in "NYF" for e in r["ev"])})


def replay(path):
    d = json.load(open(path))
    rec = d["replay"].get("record", {})
    if "ev" in rec:
        fails, _ = core.validate_records("TimeHistTrace", "TimeHistTrace.cfg", [rec], expect="init")
        for idx, inv in fails:
            print("VIOLATION property=C15 replay=%s\n  clause: %s (recorded observation re-validated)" % (path, inv))
        return 1 if fails else 0
    return tc.replay(path, "C15")
