# -*- coding: utf-8 -*-
"""C14 - nice() only widens a domain, by less than two tick steps, to round end points (linear and time)."""
import json

import core
from props import lin_common as lc
from props import time_common as tc


def run(ctx):
    quick = ctx.tier == "quick"
    ctx.rule = ("linear: every integer domain of a grid embedded at decades 1e-6..1e9 x 11 counts, plus random float domains; time: curated and "
                "random domains 10 ms..200 y in 1900-2199, default and explicit counts; non-trivial = nice() moved an end point; distinct by (domain, m)")
    ctx.model("MCLinTicks", "MCLinTicks_quick.cfg" if quick else "MCLinTicks_thorough.cfg", workers=core.NCPU, heap="4g",
              label="linear nice laws on every integer domain of the grid x m (NeverInward, LessThanTwoSteps, OnTenthOfStep)")
    ctx.model("MCLinTicks", "NegLinTicks_onepass.cfg", workers=4, expect_violation="NiceOnePassRound",
              label="negative self-test: a single floor/ceil pass does not always land on round end points")
    lrecs, disc = lc.gather_ticks(ctx)
    lrecs = [r for r in lrecs if r["kind"] == "nice"]
    lc.check(ctx, "LinC14.cfg", lrecs, "C14_")
    ctx.model("MCTimeTicks", "MCTimeTicks_quick.cfg" if quick else "MCTimeTicks.cfg", workers=core.NCPU, heap="4g",
              label="operational time nice (tick method + floor/ceil with skip): never inward, < 2 tick steps, on a unit boundary")
    trecs = tc.gather(ctx, "nice")
    tc.check(ctx, "nice", trecs, "C14_")
    # the process's local zone is no input of the property: slices of the same records are taken in a zone with DST and in
    # one whose offset is not a whole number of hours
    for zname, tz, sc in (("US-Eastern-DST", "EST5EDT,M3.2.0,M11.1.0", 0.2), ("India+5:30", "IST-5:30", 0.1)):
        zrecs = tc.gather(ctx, "nice", tz=tz, scale=sc)
        tc.check(ctx, "nice", zrecs, "C14_", zone=zname)
        ctx.evaluations += len(zrecs)
    # conformance of the operational nice model with the observed niced domains: drift is reported, never a verdict
    sub = [r for r in trecs if not r["err"]][::(3 if quick else 1)]
    drift, st = core.validate_records("TimeDrift", "TimeDrift.cfg", sub, per_shard=800, heap="3g")
    ctx.states += st["distinct"]
    ctx.transitions += st["generated"]
    ctx.extra["operational_model_conformance"] = {"niced_domains_compared": len(sub), "explained_exactly_by_TimeTicks.tla": len(sub) - len(drift),
                                                  "spec_drift": len(drift)}
    if drift:
        ctx.notes.append("spec drift: %d niced domains are not reproduced by the operational model (first: %s)"
                         % (len(drift), json.dumps(sub[drift[0][0]])[:300]))
    ctx.evaluations += len(lrecs) + len(trecs)
    ctx.nontrivial += len({json.dumps([r["dom"], r["m"]]) for r in lrecs if (r["lo"], r["hi"]) != (r["nlo"], r["nhi"])})
    ctx.nontrivial += len({json.dumps([r["dom"], r["m"]]) for r in trecs if [x[:2] for x in r["niced"]] != r["dom"]})
    ctx.extra["linear_records"] = len(lrecs)
    ctx.extra["time_records"] = len(trecs)
    ctx.sample(lrecs[len(lrecs) // 2])
    ctx.sample(trecs[len(trecs) // 2])


def replay(path):
    d = json.load(open(path))
    rec = d["replay"]["record"]
    if rec["kind"] == "nice":
        fails, _ = core.validate_records("LinTrace", "LinC14.cfg", [rec])
    else:
        fails, _ = core.validate_records("TimeTrace", "TimeC14.cfg", [rec])
    for idx, inv in fails:
        print("VIOLATION property=C14 replay=%s\n  clause: %s (recorded observation re-validated)" % (path, inv))
    return 1 if fails else 0
