# -*- coding: utf-8 -*-
"""C07 - every datum is drawn once, at its true time, linked to its own label."""
import core
from props import timeline_common as tl


def run(ctx):
    ctx.rule = 'datasets of 1..12 data (numeric on a linear scale; date/datetime with time of day on a time scale; widths explicit; texts with XML-special and non-ASCII characters, some without text; shuffled input order) x 4 directions x engine options x sizes, layer gap, padding, tick display, explicit or derived domain; both back-ends; non-trivial = more than one layer or a datum with a time of day; distinct by document digest'
    ctx.assumptions += ["coordinates are projected to integers x 1e5; exactly printed link points are compared as strings",
                        "labels carry explicit widths (no LaTeX here); the TeX rendering itself is not checked, only the emitted source",
                        "datasets whose export raises (C11's matter) are counted, not judged here"]
    ctx.model("MCRender", "MCRender.cfg", workers=core.NCPU, heap="4g",
              label="box placement per direction: separated layout + spacing >= 3 + gap >= 1 => disjoint, on side, layer order after truncation")
    ctx.model("MCRender", "NegRender_ns2.cfg", workers=4, expect_violation="Disjoint",
              label="negative self-test: with label spacing 2 truncation can make boxes touch")
    recs, errors = tl.gather(ctx, ns_min=0)
    ctx.extra["exports_that_raised"] = len(errors)
    tl.check(ctx, "DrawC07.cfg", recs, "C07_")
    # the process's local zone is no input of the property: a slice of the drawings is made in a zone with DST
    zrecs, zerrors = tl.gather(ctx, ns_min=0, tz="EST5EDT,M3.2.0,M11.1.0", scale=0.2)
    tl.check(ctx, "DrawC07.cfg", zrecs, "C07_", zone="US-Eastern-DST")
    # the time scale's tick format (labella.scale.mytimeformat) as modelled in DrawTrace.tla: conformance only
    res, st = core.validate_records("DrawTrace", "DrawDrift.cfg", recs, per_shard=120, heap="3g")
    ctx.states += st["distinct"]
    ctx.transitions += st["generated"]
    drift = sorted({i for i, inv in res})
    ctx.extra["time_tick_format_model_conformance"] = {"drawings_compared": len(recs), "spec_drift": len(drift)}
    if drift:
        ctx.notes.append("spec drift: in %d drawings the time scale formats a tick differently from the model TimeFormat of spec/DrawTrace.tla" % len(drift))
    ctx.evaluations += 2 * len(recs) + 2 * len(zrecs)
    ctx.nontrivial += len({r["svg"]["sha"] for r in recs if max(n["layer"] for n in r["svg"]["nodes"]) > 0 or r["svg"]["n"] >= 2})
    small = [r for r in recs if r["svg"]["n"] <= 2]
    if small:
        ctx.sample({"svg": small[0]["svg"]})
    ctx.sample({"n": recs[0]["svg"]["n"], "dir": recs[0]["svg"]["dir"], "boxes": recs[0]["tikz"]["boxes"][:2], "links": recs[0]["tikz"]["links"][:1]})


def replay(path):
    return tl.replay(path, "DrawC07.cfg", "C07")
