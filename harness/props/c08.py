# -*- coding: utf-8 -*-
"""C08 - drawn label boxes are pairwise disjoint and sit on the chosen side of the axis."""
import core
from props import timeline_common as tl


def run(ctx):
    ctx.rule = 'as C07 with label spacing >= 3 and layer gap >= 1; non-trivial = at least two boxes; distinct by document digest'
    ctx.assumptions += ["coordinates are projected to integers x 1e5; exactly printed link points are compared as strings",
                        "labels carry explicit widths (no LaTeX here); the TeX rendering itself is not checked, only the emitted source",
                        "datasets whose export raises (C11's matter) are counted, not judged here"]
    ctx.model("MCRender", "MCRender.cfg", workers=core.NCPU, heap="4g",
              label="box placement per direction: separated layout + spacing >= 3 + gap >= 1 => disjoint, on side, layer order after truncation")
    ctx.model("MCRender", "NegRender_ns2.cfg", workers=4, expect_violation="Disjoint",
              label="negative self-test: with label spacing 2 truncation can make boxes touch")
    ctx.theorems("ApaRender", ["Disjoint", "Side", "LayerOrder"], neg=("InitNeg", "Disjoint"),
                 label="the same theorem for unbounded integers in units of 1/1000 (every position, width, thickness, layer, gap); with spacing 2 a counterexample")
    recs, errors = tl.gather(ctx, ns_min=3)
    ctx.extra["exports_that_raised"] = len(errors)
    tl.check(ctx, "DrawC08.cfg", recs, "C08_")
    ctx.evaluations += 2 * len(recs)
    ctx.nontrivial += len({r["svg"]["sha"] for r in recs if max(n["layer"] for n in r["svg"]["nodes"]) > 0 or r["svg"]["n"] >= 2})
    small = [r for r in recs if r["svg"]["n"] <= 2]
    if small:
        ctx.sample({"svg": small[0]["svg"]})
    ctx.sample({"n": recs[0]["svg"]["n"], "dir": recs[0]["svg"]["dir"], "boxes": recs[0]["tikz"]["boxes"][:2], "links": recs[0]["tikz"]["links"][:1]})


def replay(path):
    return tl.replay(path, "DrawC08.cfg", "C08")
