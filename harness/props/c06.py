# -*- coding: utf-8 -*-
"""C06 - a layout is a pure function of the labels and options."""
import json
import os
import re
import tempfile

import core


def tlc_histories(ctx, maxlen):
    """Let TLC enumerate every call history of the model Engine.tla up to maxlen (history variable h,
    one state per history) and read the histories back from its state dump."""
    tmp = tempfile.mkdtemp(prefix="veng_")
    dump = os.path.join(tmp, "eng")
    cfg = os.path.join(tmp, "MCEngine_gen.cfg")
    src = open(os.path.join(core.SPEC, "MCEngine.cfg")).read()
    src = re.sub(r"MaxLen = \d+", "MaxLen = %d" % maxlen, src)
    with open(cfg, "w") as f:
        f.write(src)
    try:
        ctx.model("Engine", cfg, workers=8, heap="4g", dump=[dump + ".dump"],
                  label="all call histories up to length %d: Pure, ReuseEqualsFresh" % maxlen)
        text = open(dump + ".dump").read()
    finally:
        import shutil
        shutil.rmtree(tmp, ignore_errors=True)
    hs = []
    for m in re.finditer(r"^/\\ h = <<(.*)>>$", text, re.M):
        acts = re.findall(r'"([^"]+)"', m.group(1))
        hs.append(acts)
    return hs


def node_heap_conformance(ctx):
    """labella.node.Node against the heap model NodeHeap.tla: every maximal history of the model's state graph (a seeded
    1-in-n sample in the quick tier) and random histories are played on real Node objects; every observer of every node
    is compared after every call.  No listed property is decided here: a mismatch is specification drift."""
    import shutil
    quick = ctx.tier == "quick"
    ctx.model("NodeHeap", "NegNodeHeap_undisciplined.cfg", workers=2, expect_violation="Undisciplined_PointersAgree",
              label="negative self-test: createStub on a node that still has a parent leaves the old stub pointing at it")
    tmp = tempfile.mkdtemp(prefix="vnode_")
    try:
        ctx.model("NodeHeap", "MCNodeHeap.cfg", workers=8, heap="4g", dump=[os.path.join(tmp, "n.dump")],
                  label="node heap: pointer agreement, chains share the datum's position, stubs start at their child (all histories <= 5 calls)")
        text = open(os.path.join(tmp, "n.dump")).read()
    finally:
        shutil.rmtree(tmp, ignore_errors=True)
    hs = [h for h in core.parse_history_dump(text) if len(h) == 5]
    stride = 40 if quick else 4
    leaves = hs[(ctx.seed % stride)::stride]
    jobs = []
    per = (len(leaves) + core.NCPU - 1) // core.NCPU
    for k in range(core.NCPU):
        jobs.append({"script": "d_node.py", "stdin_obj": {"seed": ctx.seed * 23 + k, "histories": leaves[k * per:(k + 1) * per],
                                                         "count": (640 if quick else 12800) // core.NCPU}})
    recs = []
    for out in core.run_drivers_parallel(jobs):
        recs += out["records"]
    drift, st = core.validate_records("NodeTrace", "NodeTrace.cfg", recs, expect="init", per_shard=300)
    ctx.states += st["distinct"]
    ctx.transitions += st["generated"]
    bad = {i for i, _ in drift}
    ctx.extra["node_heap_conformance"] = {"histories_replayed_on_Node_objects": len(recs), "from_TLC_state_graph": len(leaves),
                                          "calls": sum(len(r["ev"]) for r in recs),
                                          "explained_by_NodeHeap.tla": len(recs) - len(bad), "spec_drift": len(bad)}
    if drift:
        i, inv = drift[0]
        ctx.notes.append("spec drift: %d Node histories are not explained by the heap model (first: %s: %s)" % (
            len(bad), inv, " ".join("%s%s:%s" % (e["a"], e["n"], e["x"]) for e in recs[i]["ev"])))


def act(e):
    return e["a"] + (":" + e["x"] if e["x"] else "")


def run(ctx):
    quick = ctx.tier == "quick"
    ctx.rule = ("histories: every history of the model Engine.tla of maximal length (TLC state dump) replayed on one real Force, plus seeded "
                "random histories of 4..13 calls on label sets of up to 40 labels; non-trivial = at least two computes, or a compute on "
                "labels that were laid out before / presented permuted; distinct by action sequence and label sets")
    ctx.assumptions += ["labels sharing a data position share a width (the property's proviso); results are compared as the multiset "
                        "(idealPos, width, layer, position)"]
    ctx.model("Engine", "MCEngine_unbounded.cfg", workers=4, heap="4g",
              label="call histories of EVERY length: under the view that drops the history variable the reachable graph is finite (Pure, ReuseEqualsFresh)")
    ctx.model("Engine", "NegEngine_cachedmeasure.cfg", workers=2, expect_violation="Pure",
              label="negative self-test: something derived from a label's old width or position and kept across layouts makes a layout after re-measuring impure")
    ctx.model("Engine", "NegEngine_nostubremoval.cfg", workers=2, expect_violation="Pure",
              label="negative self-test: without stub removal a second compute is not pure")
    maxlen = 4 if quick else 5
    hs = tlc_histories(ctx, maxlen)
    leaves = [h for h in hs if len(h) == maxlen and "C" in h]
    if quick:
        leaves = leaves[(ctx.seed % 2)::2]
    ctx.extra["tlc_histories"] = len(hs)
    ctx.extra["replayed_maximal_histories"] = len(leaves)
    jobs = []
    per = (len(leaves) + core.NCPU - 1) // core.NCPU
    for k in range(core.NCPU):
        chunk = leaves[k * per:(k + 1) * per]
        if chunk:
            jobs.append({"script": "d_engine.py", "stdin_obj": {"histories": chunk}})
    cnt = 320 if quick else 6400
    for k in range(core.NCPU):
        jobs.append({"script": "d_engine.py",
                     "stdin_obj": {"random": {"seed": ctx.seed * 7919 + k, "count": cnt // core.NCPU}}})
    recs = []
    for out in core.run_drivers_parallel(jobs):
        recs += out["records"]
    slim = [{"ev": r["ev"]} for r in recs]
    fails = ctx.validate("EngineTrace", "EngineTrace.cfg", slim, expect="init", per_shard=300)
    for idx, inv in fails:
        if not inv.startswith("C06_"):
            raise core.MachineryError("model does not explain history %s (%s)" % ([act(e) for e in recs[idx]["ev"]], inv))
        acts = [act(e) for e in recs[idx]["ev"]]
        kinds = sorted({a[:2] for a in acts})
        ctx.report("%s actions=%s" % (inv, ",".join(kinds)), " ".join(acts), {"record": recs[idx]})
    ctx.evaluations += len(recs)
    seen = set()
    for r in recs:
        acts = [act(e) for e in r["ev"]]
        if acts.count("C") >= 2 or any(a.startswith("F:") or a.startswith("N:P") for a in acts):
            seen.add(json.dumps([acts, r["sets"]]))
    ctx.nontrivial += len(seen)
    ctx.sample({"history": [act(e) for e in recs[0]["ev"]], "last": recs[0]["ev"][-1]})
    ctx.sample({"history": [act(e) for e in recs[-1]["ev"]], "sets": recs[-1]["sets"]})
    node_heap_conformance(ctx)


def replay(path):
    d = json.load(open(path))
    rec = d["replay"]["record"]
    acts = [act(e) for e in rec["ev"]]
    out = core.run_driver("d_engine.py", stdin_obj={"histories": [acts], "sets": rec["sets"], "sets2": rec.get("sets2")})
    fails, _ = core.validate_records("EngineTrace", "EngineTrace.cfg", [{"ev": r["ev"]} for r in out["records"]], expect="init")
    for idx, inv in fails:
        print("VIOLATION property=C06 replay=%s" % path)
        print("  clause: %s" % inv)
    return 1 if fails else 0
