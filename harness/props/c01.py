# -*- coding: utf-8 -*-
"""C01 - items sharing a layer never overlap and keep the order of their targets."""
import core
from props import layout_common as lc


def run(ctx):
    quick = ctx.tier == "quick"
    ctx.rule = ("layouts: the bounded lattice of DESIGN section 8 (<= 3 labels x 432 configurations, strided), seeded random "
                "lattice-valued label sets (1..40 labels), dense clusters (20..150 labels), synthesised bounds, non-lattice "
                "floats; distinct = distinct (options, labels); non-trivial = at least one item was moved from its target")
    ctx.assumptions += ["positions/widths enter TLC as integers in units of 1/4 (lattice) or 1/1000 (floats, widths rounded down)",
                        "clusters above ~200 mutually conflicting labels exceed the interpreter recursion limit (C11 note) and are not generated"]
    ctx.model("MCChain", "MCChain_free_q.cfg" if quick else "MCChain_free.cfg", workers=core.NCPU, heap="4g",
              label="chains without walls: oracle KKT, equals Vpsc.tla fix-point, every rounding keeps separation/order")
    ctx.model("MCChain", "MCChain_walls_q.cfg" if quick else "MCChain_walls.cfg", workers=core.NCPU, heap="4g",
              label="chains with walls: oracle KKT, roundings separated/ordered/inside")
    ctx.model("MCChain", "NegChain_allpairs.cfg", workers=2, expect_violation="RoundedSepAllPairs",
              label="negative self-test: literal all-pairs reading fails for stub / narrow label / stub (F-01)")
    ctx.model("MCLayout", "MCLayout_quick.cfg" if quick else "MCLayout.cfg", workers=core.NCPU, heap="8g", timeout=7200,
              label="end-to-end model (distributor -> optimum -> rounding) on every label sequence of a lattice x options: order, neighbour "
                    "separation, inside the walls when it fits, spill keeps separation, within half of the optimum, stub chains")
    ctx.model("MCLayout", "NegLayout_allpairs.cfg", workers=4, expect_violation="ModelSeparatedAllPairs",
              label="negative self-test: the end-to-end MODEL itself reproduces known finding F-01 (all-pairs separation fails for "
                    "two stubs around a narrow label at spacing 0)")
    recs, meta, errors = lc.gather(ctx, ["random", "dense", "bounds", "float", "centi", "sibling", "far", "offscreen", "relayout", "direct"])
    if errors:
        ctx.notes.append("%d layouts raised RecursionError (not part of C01)" % len(errors))
    lc.report_errors(ctx, errors, "C01_")
    lc.check(ctx, "LayoutC01.cfg", recs, meta, "C01_")
    ctx.evaluations += len(recs)
    ctx.nontrivial += len({lc.keyof(r) for r in recs if lc.moved(r)})
    ctx.extra["max_labels"] = max(len(r["labels"]) for r in recs)
    ctx.extra["multi_layer_layouts"] = sum(1 for r in recs if len(r["layers"]) > 1)
    for tag in ("lattice", "dense", "float"):
        for r, m in zip(recs, meta):
            if m == tag and len(r["layers"]) > 1 and len(r["labels"]) <= 6:
                ctx.sample({"kind": tag, "record": r})
                break


def replay(path):
    return lc.replay(path, "LayoutC01.cfg")
