# -*- coding: utf-8 -*-
"""C17 - calendar intervals round instants correctly."""
import json

import core

ZONE = "UTC"


def gather(ctx, tz="UTC", scale=1.0, ops=None):
    quick = ctx.tier == "quick"
    lo, hi = -25567, 84005          # 1900-01-01 .. 2199-12-31
    stride = int((29 if quick else 1) / scale) or 1
    jobs = []
    for k in range(core.NCPU):
        job = {"seed": ctx.seed * 1009 + k, "days": [lo, hi, stride * core.NCPU, (k * stride + ctx.seed) % (stride * core.NCPU)],
               "units_per_day": 2 if quick else 3,
               "hours_of_years": [[1900, 1999, 2000, 2023, 2024, 2100, 2199][k % 7]] if k < 7 else [],
               "hour_stride": int((12 if quick else 1) / scale) or 1, "hour_offset": ctx.seed,
               "random": int((4000 if quick else 60000) * scale) // core.NCPU}
        if ops:
            job["ops"] = ops
        jobs.append({"script": "d_calendar.py", "stdin_obj": job, "tz": tz})
    recs = []
    for out in core.run_drivers_parallel(jobs):
        recs += out["records"]
    return recs


def check(ctx, recs, pid="C17", zone="UTC"):
    fails = ctx.validate("CalTrace", "CalC17.cfg", recs, per_shard=4000, heap="3g")
    for idx, inv in fails:
        rec = recs[idx]
        if not inv.startswith("C17_"):
            raise core.MachineryError("spec-side invariant %s failed: %s" % (inv, json.dumps(rec)))
        name = inv.replace("C17_", pid + "_")
        ctx.report("%s unit=%s op=%s err=%s zone=%s" % (name, rec["u"], rec["op"], rec["err"], zone),
                   json.dumps(rec)[:300], {"record": rec, "zone": zone})
    return fails


def run(ctx):
    quick = ctx.tier == "quick"
    ctx.rule = ("calls d3_time[unit].floor/ceil/round/offset/range: every n-th day of 1900-2199 at 00:00, 00:00:00.001, 12:00, 23:59:59.999 "
                "(n = 1 in the thorough tier) with units rotating over the days, every n-th hour of seven selected years, seeded random instants "
                "biased to month ends / leap days / year ends; non-trivial = the result differs from the argument; distinct by (unit, op, arguments)")
    ctx.assumptions += ["instants are projected to <<day, ms>> with datetime arithmetic; the spec's calendar is cross-checked against datetime's "
                        "civil fields on every record (CalendarAgrees)", "week ranges are only specified for step 1 (the unit number of a week is not defined by the property)"]
    ctx.model("MCCalendar", "MCCalendar_quick.cfg" if quick else "MCCalendar_thorough.cfg", workers=core.NCPU, heap="4g",
              label="calendar self-consistency and functional = declarative for every day of the range x 7 units")
    if not quick:
        ctx.model("MCCalendar", "MCCalendar_era.cfg", workers=core.NCPU, heap="4g",
                  label="the same for EVERY day of one full 400-year cycle (2000-03-01 .. 2400-02-29, 146 097 days); the calendar is periodic in the "
                        "cycle (EraShift: checked 12 cycles to either side), so the specification's calendar is decided for every day")
    recs = gather(ctx)
    check(ctx, recs)
    # the process's local zone is no input of the property: a slice of the same calls is made in a zone with DST
    for zname, tz, sc in (("US-Eastern-DST", "EST5EDT,M3.2.0,M11.1.0", 0.15), ("India+5:30", "IST-5:30", 0.1)):
        zrecs = gather(ctx, tz=tz, scale=sc)
        check(ctx, zrecs, zone=zname)
        ctx.evaluations += len(zrecs)
    ctx.evaluations += len(recs)
    ctx.nontrivial += len({json.dumps([r["u"], r["op"], r["t"], r["k"], r["t1"], r["step"]]) for r in recs
                           if (r["op"] == "range" and r["outs"]) or (r["op"] != "range" and r["out"][:2] != r["t"])})
    ctx.sample(recs[0])
    ctx.sample([r for r in recs if r["op"] == "range" and len(r["outs"]) in (2, 3)][0])


def replay(path):
    d = json.load(open(path))
    fails, _ = core.validate_records("CalTrace", "CalC17.cfg", [d["replay"]["record"]])
    for idx, inv in fails:
        print("VIOLATION property=%s replay=%s\n  clause: %s (recorded observation re-validated)" % (d["property"], path, inv))
    return 1 if fails else 0
