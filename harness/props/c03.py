# -*- coding: utf-8 -*-
"""C03 - position bounds are honoured whenever the items fit; otherwise excess spills."""
import core
from props import layout_common as lc


def run(ctx):
    quick = ctx.tier == "quick"
    ctx.rule = ("layouts with bounds synthesised at required width + {0, .5, -.5, -1, -10, 5}, the bounded lattice, random and float "
                "layouts; non-trivial = both bounds present; distinct by (options, labels)")
    ctx.model("MCChain", "MCChain_walls_q.cfg" if quick else "MCChain_walls.cfg", workers=core.NCPU, heap="4g",
              label="every rounding of the optimum stays within 0.5 of the walls when the layer fits")
    recs, meta, errors = lc.gather(ctx, ["bounds", "random", "float", "centi", "sibling", "far", "offscreen", "relayout", "direct"])
    lc.report_errors(ctx, errors, "C03_")
    lc.check(ctx, "LayoutC03.cfg", recs, meta, "C03_")
    ctx.evaluations += len(recs)
    ctx.nontrivial += len({lc.keyof(r) for r in recs if r["opts"]["hasMin"] and r["opts"]["hasMax"]})
    for r, m in zip(recs, meta):
        if m == "bounds" and len(r["labels"]) <= 4:
            ctx.sample({"kind": m, "record": r})
            break


def replay(path):
    return lc.replay(path, "LayoutC03.cfg")
