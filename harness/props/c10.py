# -*- coding: utf-8 -*-
"""C10 - a timeline's export depends only on its own data and options."""
import json
import os
import re
import shutil
import tempfile

import core


def tlc_histories(ctx, maxlen):
    tmp = tempfile.mkdtemp(prefix="vtl_")
    try:
        cfg = os.path.join(tmp, "gen.cfg")
        src = re.sub(r"MaxLen = \d+", "MaxLen = %d" % maxlen, open(os.path.join(core.SPEC, "MCTimelines.cfg")).read())
        open(cfg, "w").write(src)
        ctx.model("Timelines", cfg, workers=8, heap="4g", dump=[os.path.join(tmp, "d.dump")],
                  label="all construct/export histories up to length %d over 2 timelines x 4 configurations: Isolation, Idempotent" % maxlen)
        text = open(os.path.join(tmp, "d.dump")).read()
    finally:
        shutil.rmtree(tmp, ignore_errors=True)
    hs = core.parse_history_dump(text)
    return hs


def run(ctx):
    quick = ctx.tier == "quick"
    ctx.rule = ("histories of construct/export calls in one process: every maximal history of the model Timelines.tla (TLC dump; 2 timelines x 4 "
                "configurations: default time scale with two disjoint date ranges, own linear scale, direction/engine options) that contains an export, "
                "plus seeded random histories over 2..4 timelines including random larger datasets; each export is compared (SHA-256) with the same "
                "configuration exported alone in a fresh subprocess; non-trivial = an export after a later construction of another timeline, or a "
                "repeated export; distinct by history")
    ctx.assumptions += ["byte-for-byte equality up to SHA-256 collision", "datetime.time data are not used (they depend on the date of the run)"]
    ctx.model("Timelines", "NegTimelines_shared.cfg", workers=2, expect_violation="Isolation",
              label="negative self-test: one shared default scale breaks isolation after Construct;Construct;Export")
    ctx.model("Timelines", "NegTimelines_shareddir.cfg", workers=2, expect_violation="Isolation",
              label="negative self-test: reading the direction back from the shared default engine-option dict breaks isolation")
    ctx.model("Timelines", "NegTimelines_omitted.cfg", workers=2, expect_violation="Isolation",
              label="negative self-test: instances constructed without an options argument sharing one scale object (a mutable default) break isolation")
    ctx.model("Timelines", "MCTimelines_unbounded.cfg", workers=4, heap="4g",
              label="construct/export histories of EVERY length over 3 timelines x 6 configurations (finite graph: a fresh scale object is named after the instance that holds it, the history variable is dropped from the view): Isolation, Idempotent")
    ctx.model("Timelines", "NegTimelines_refit.cfg", workers=2, expect_violation="Isolation",
              label="negative self-test: fitting the axis again at every export changes the document of a nice-sensitive configuration")
    maxlen = 4 if quick else 5
    hs = [h for h in tlc_histories(ctx, maxlen) if len(h) == maxlen and any(e["a"] == "E" for e in h)]
    if not quick:
        hs = hs[(ctx.seed % 3)::3]
    ctx.extra["tlc_maximal_histories_with_export"] = len(hs)
    jobs = []
    per = (len(hs) + core.NCPU - 1) // core.NCPU
    for k in range(core.NCPU):
        jobs.append({"script": "d_timeline.py", "stdin_obj": {"mode": "hist", "seed": ctx.seed * 37 + k, "histories": hs[k * per:(k + 1) * per],
                                                             "count": (160 if quick else 1600) // core.NCPU}})
    recs = []
    for out in core.run_drivers_parallel(jobs):
        recs += out["records"]
    fails = ctx.validate("TimelinesTrace", "TimelinesTrace.cfg", [{"ev": r["ev"]} for r in recs], expect="init", per_shard=200)
    for idx, inv in fails:
        if not inv.startswith("C10_"):
            raise core.MachineryError("model does not explain history (%s): %s" % (inv, json.dumps(recs[idx]["ev"])[:500]))
        acts = " ".join("%s%d%s" % (e["a"], e["i"], e["c"]) for e in recs[idx]["ev"])
        ctx.report("%s" % inv, acts, {"record": recs[idx]})
    ctx.evaluations += len(recs)
    nt = set()
    for r in recs:
        evs = r["ev"]
        for j, e in enumerate(evs):
            if e["a"] == "E" and (e["prev"] or any(x["a"] == "K" and x["i"] != e["i"] for x in evs[:j])):
                nt.add(json.dumps([[x["a"], x["i"], x["c"]] for x in evs]) + str(r["seed"]))
                break
    ctx.nontrivial += len(nt)
    ctx.sample({"history": [[e["a"], e["i"], e["c"], e.get("b")] for e in recs[0]["ev"]], "last": recs[0]["ev"][-1]})


def replay(path):
    d = json.load(open(path))
    rec = d["replay"]["record"]
    h = [{"a": e["a"], "i": e["i"], "c": e["c"]} for e in rec["ev"]]
    out = core.run_driver("d_timeline.py", stdin_obj={"mode": "hist", "seed": rec["seed"], "histories": [h]})
    fails, _ = core.validate_records("TimelinesTrace", "TimelinesTrace.cfg", [{"ev": r["ev"]} for r in out["records"]], expect="init")
    for idx, inv in fails:
        print("VIOLATION property=C10 replay=%s\n  clause: %s" % (path, inv))
    return 1 if fails else 0
