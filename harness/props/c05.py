# -*- coding: utf-8 -*-
"""C05 - the separation-constraint solver returns a feasible, certified-optimal solution.

Spec: spec/Vpsc.tla (operational model, exact rationals), MCVpsc.tla (bounded instance
spaces), VpscTrace.tla / VpscBig.tla (binding to the real labella.vpsc).
"""
import itertools
import json

import core

VERDICT_PREFIX = "C05_"


def lattice_instances(des_set, gaps, weights, n=3):
    """The instance space of MCVpsc_quick.cfg, enumerated in a fixed order."""
    pairs = [(a, b) for a in range(n) for b in range(a + 1, n)]
    out = []
    for des in itertools.product(des_set, repeat=n):
        for wt in itertools.product(weights, repeat=n):
            for gp in itertools.product([-1] + list(gaps), repeat=len(pairs)):
                cons = [[a, b, g] for (a, b), g in zip(pairs, gp) if g >= 0]
                out.append({"des": list(des), "wt": list(wt), "sc": [1] * n, "cons": cons})
    return out


def report_failures(ctx, failures, records, mode):
    for idx, inv in failures:
        rec = records[idx]
        if not inv.startswith(VERDICT_PREFIX):
            raise core.MachineryError("model-side invariant %s failed on record %d (%s): %s"
                                      % (inv, idx, mode, json.dumps(rec)[:600]))
        sig = "%s mode=%s acyclic=%s" % (inv, mode, rec.get("acyclic"))
        ctx.report(sig, "n=%d rounds=%s" % (rec["n"], rec.get("rounds")), {"mode": mode, "record": rec})


def run(ctx):
    quick = ctx.tier == "quick"
    seed = ctx.seed
    ctx.rule = ("instances: (a) every instance of the exhaustive TLC lattice (3 variables), "
                "(b) seeded random DAG/cyclic instances inside the exact envelope (2..8 variables), "
                "(c) seeded random large instances (8..60 variables, weights 1e-2..1e10, scales 0.5..4), "
                "(d) re-solves: the same Solver solved for other desired positions first, then retargeted (small and large); "
                "non-trivial = the solver merged at least one constraint (some constraint active or flagged)")
    ctx.assumptions += [
        "exact optimality is decided only inside the 32-bit envelope of Vpsc.tla (<= 8 variables, weights 1..3, "
        "scales 1..2); beyond it TLC decides termination, feasibility and cost consistency on scaled integers",
        "the solver's unique optimum is compared by position (|x - x*| <= 1e-3), which bounds the cost gap",
    ]
    # ---- design level: the model has the property on the bounded lattice
    ctx.model("MCVpsc", "MCVpsc_quick.cfg", workers=core.NCPU, heap="4g", label="exhaustive N=3 DAG, no-change stop rule")
    ctx.model("MCVpsc", "NegVpsc_coststop.cfg", workers=2, expect_violation="Feasible",
              label="negative self-test: cost-stationary stop rule ends infeasible")
    # vacuity guards: every action of the model must be taken somewhere in the configurations that are checked (a coverage run
    # showed that the N=3 lattice never takes Split in a first solve: it needs four variables, or a re-solve)
    for cfg, prop, mod, what in (("ReachVpsc_merge.cfg", "Reach_Merge", "MCVpsc", "Merge"),
                                 ("ReachVpsc_splitbetween.cfg", "Reach_SplitBetween", "MCVpsc", "SplitBetween"),
                                 ("ReachVpsc_markunsat.cfg", "Reach_MarkUnsat", "MCVpsc", "MarkUnsat (cyclic instances)"),
                                 ("ReachVpsc_secondround.cfg", "Reach_SecondRoundChanges", "MCVpsc", "a second satisfy round that changes the active set"),
                                 ("ReachVpscResolve_split.cfg", "Reach_Split", "VpscResolve", "Split (re-solve model)")):
        ctx.model(mod, cfg, workers=4, heap="3g", expect_violation=prop, label="reachability witness: the model takes " + what)
    ctx.model("VpscResolve", "VpscResolve_quick.cfg" if quick else "VpscResolve.cfg", workers=core.NCPU, heap="6g",
              label="re-solve: setDesiredPositions + solve() from every block structure a first solve leaves behind (N=3 DAG)")
    if not quick:
        ctx.model("MCVpsc", "MCVpsc_scales.cfg", workers=core.NCPU, heap="6g",
                  label="exhaustive N=3 DAG with scales {1,2}, TrueOpt brute force")
        ctx.model("MCVpsc", "MCVpsc_cyclic.cfg", workers=core.NCPU, heap="6g",
                  label="exhaustive N=3 with cycles, termination as liveness")
        ctx.model("MCVpsc", "MCVpsc_fullmerge.cfg", workers=core.NCPU, heap="6g",
                  label="exhaustive N=3 DAG, full merge loop variant")
        ctx.model("MCVpsc", "MCVpsc_n4.cfg", workers=core.NCPU, heap="10g", timeout=7200,
                  label="exhaustive N=4 DAG (unit weights): 331 776 instances, every tie order")
        ctx.model("MCVpsc", "SimVpsc5.cfg", workers=core.NCPU, heap="6g", simulate="num=600", depth=60,
                  seed=seed + 1, label="simulation N=5")

    # ---- spec -> code: the instances of the exhaustive lattice, replayed on the real solver
    lat = lattice_instances([0, 1, 2], [0, 1, 2], [1, 3])
    if quick:
        lat = lat[(seed % 8)::8]
    jobs = []
    per = (len(lat) + core.NCPU - 1) // core.NCPU
    for k in range(core.NCPU):
        chunk = lat[k * per:(k + 1) * per]
        if chunk:
            jobs.append({"script": "d_vpsc.py",
                         "stdin_obj": {"seed": 0, "count": len(chunk), "mode": "small", "instances": chunk}})
    recs = []
    for out in core.run_drivers_parallel(jobs):
        recs += out["records"]
    fails = ctx.validate("VpscTrace", "VpscTrace.cfg", recs, expect="init", per_shard=100)
    report_failures(ctx, fails, recs, "lattice")
    ctx.evaluations += len(recs)
    ctx.nontrivial += sum(1 for r in recs if any(r["act"]) or any(r["uns"]))
    ctx.sample({"kind": "lattice", "record": recs[len(recs) // 2]})

    # ---- code -> spec: seeded random instances
    plan = [("small", 480 if quick else 6000), ("scaled", 160 if quick else 2000), ("cyclic", 160 if quick else 2000),
            ("resolve", 320 if quick else 4000)]
    for mode, cnt in plan:
        jobs = []
        per = cnt // core.NCPU
        for k in range(core.NCPU):
            jobs.append({"script": "d_vpsc.py",
                         "stdin_obj": {"seed": seed * 1000 + k * 7 + hash_mode(mode), "count": per, "mode": mode}})
        recs = []
        disc = 0
        for out in core.run_drivers_parallel(jobs):
            recs += out["records"]
            disc += out["discarded"]
        fails = ctx.validate("VpscTrace", "VpscTrace.cfg", recs, expect="init", per_shard=60)
        report_failures(ctx, fails, recs, mode)
        ctx.evaluations += len(recs)
        ctx.nontrivial += len({json.dumps([r["des"], r["wt"], r["sc"], r["cl"], r["cr"], r["cg"], r["first"]])
                               for r in recs if any(r["act"]) or any(r["uns"])})
        ctx.extra.setdefault("discarded_outside_envelope", {})[mode] = disc
        ctx.sample({"kind": mode, "record": recs[0]})

    # ---- micro-step refinement: every internal step of the real solver must be an action of Vpsc.tla (drift only)
    jobs = [{"script": "d_vpsc.py", "stdin_obj": {"seed": seed * 1000 + 900 + k, "count": (480 if quick else 8000) // core.NCPU, "mode": "steps"}}
            for k in range(core.NCPU)]
    srecs = []
    skipped = None
    for out in core.run_drivers_parallel(jobs):
        srecs += out["records"]
        skipped = out.get("skipped") or skipped
    if srecs:
        drift, st = core.validate_records("VpscSteps", "VpscSteps.cfg", srecs, expect="init", per_shard=60)
        ctx.states += st["distinct"]
        ctx.transitions += st["generated"]
        kinds = {}
        for r in srecs:
            for e in r["ev"]:
                kinds[e["a"]] = kinds.get(e["a"], 0) + 1
        ctx.extra["micro_step_refinement"] = {"solves_traced": len(srecs), "events_by_action": kinds,
                                              "solves_explained_step_by_step_by_Vpsc.tla": len(srecs) - len({d[0] for d in drift}),
                                              "spec_drift": len({d[0] for d in drift})}
        if drift:
            ctx.notes.append("spec drift: %d traced solves contain a step the model does not explain (first: %s)"
                             % (len({d[0] for d in drift}), json.dumps(srecs[drift[0][0]])[:400]))
    else:
        ctx.extra["micro_step_refinement"] = {"skipped": skipped or "no records"}

    cnt = 320 if quick else 4000
    jobs = [{"script": "d_vpsc.py", "stdin_obj": {"seed": seed * 1000 + 500 + k, "count": cnt // core.NCPU, "mode": "large"}}
            for k in range(core.NCPU)]
    hcnt = 4800 if quick else 96000
    jobs += [{"script": "d_vpsc.py", "stdin_obj": {"seed": seed * 1000 + 700 + k, "count": hcnt // core.NCPU, "mode": "heavy"}}
             for k in range(core.NCPU)]
    rcnt = 320 if quick else 6400
    jobs += [{"script": "d_vpsc.py", "stdin_obj": {"seed": seed * 1000 + 300 + k, "count": rcnt // core.NCPU, "mode": "reslarge"}}
             for k in range(core.NCPU)]
    recs = []
    for out in core.run_drivers_parallel(jobs):
        recs += out["records"]
    ctx.extra["certificate_witnesses_proposed"] = sum(r["haswit"] for r in recs)
    fails = ctx.validate("VpscBig", "VpscBig.cfg", recs, per_shard=400)
    report_failures(ctx, fails, recs, "large")
    ctx.evaluations += len(recs)
    ctx.nontrivial += sum(1 for r in recs if r["rounds"] > 2)
    ctx.extra["large_instances"] = {"count": len(recs), "max_n": max(r["n"] for r in recs),
                                    "cyclic": sum(1 for r in recs if not r["acyclic"]),
                                    "flagged": sum(1 for r in recs if any(r["uns"]))}
    small = dict(recs[0])
    ctx.sample({"kind": "large", "record": {k: small[k] for k in ("n", "cl", "cr", "cg5", "uns", "rounds", "terminated")}})
    # known finding F-05m: wall-like weights (1e10) at desired positions of the order of 1e8 and beyond.  The instances are
    # pinned (their seed does not depend on VERIF_SEED), re-solved on every run, and judged by the same clauses
    out = core.run_driver("d_vpsc.py", stdin_obj={"seed": 20261002, "count": 40, "mode": "heavyfar"})
    frecs = out["records"]
    ffails = ctx.validate("VpscBig", "VpscBig.cfg", frecs, per_shard=400)
    report_failures(ctx, ffails, frecs, "heavyfar")
    ctx.evaluations += len(frecs)
    ctx.extra["heavy_far_instances"] = {"count": len(frecs), "failing": len({i for i, _ in ffails})}


def hash_mode(m):
    return {"small": 11, "scaled": 23, "cyclic": 37, "resolve": 53}[m]


def replay(path):
    d = json.load(open(path))
    rec = d["replay"]["record"]
    mode = d["replay"]["mode"]
    if mode == "large":
        # rebuild the instance from the record and re-run the real solver on it
        def big(l):
            return sum(d * 10000 ** i for i, d in enumerate(l))
        inst = {"des": ["%d/1000000" % d for d in rec["des6"]], "wt": ["%d/100" % big(w) for w in rec["wt100"]],
                "sc": ["%d/2" % s for s in rec["sc"]],
                "cons": [[a - 1, b - 1, "%d/200000" % g] for a, b, g in zip(rec["cl"], rec["cr"], rec["cg5"])],
                "first": rec.get("first") or []}
        out = core.run_driver("d_vpsc.py", stdin_obj={"seed": 0, "count": 0, "mode": "large", "large_instances": [inst]})
        fails, _ = core.validate_records("VpscBig", "VpscBig.cfg", out["records"])
    else:
        # re-run the real solver on the instance, then validate
        inst = {"des": rec["des"], "wt": rec["wt"], "sc": rec["sc"],
                "cons": [[a - 1, b - 1, g] for a, b, g in zip(rec["cl"], rec["cr"], rec["cg"])], "first": rec.get("first") or []}
        out = core.run_driver("d_vpsc.py", stdin_obj={"seed": 0, "count": 1, "mode": "small", "instances": [inst]})
        fails, _ = core.validate_records("VpscTrace", "VpscTrace.cfg", out["records"], expect="init")
    for idx, inv in fails:
        print("VIOLATION property=C05 replay=%s" % path)
        print("  clause: %s" % inv)
    return 1 if fails else 0
