# -*- coding: utf-8 -*-
"""C19 - label text reaches TeX intact: accents become TeX accents, nothing else changes."""
import json

import core


def run(ctx):
    quick = ctx.tier == "quick"
    ctx.rule = ("inputs: every code point that has a decomposition mapping or is a combining mark (category Mn/Mc), alone, leading ('X'+'a') and "
                "trailing ('a'+'X') (every 12th in the quick tier); all other code points in blocks (pass-through); seeded random strings mixing ASCII, "
                "TeX specials, precomposed letters, combining sequences, compatibility characters, CJK, emoji; non-trivial = input contains a "
                "non-ASCII character; distinct by input text")
    ctx.assumptions += ["Unicode facts (category, decomposition mapping, NFD, combining class) are taken from Python's unicodedata",
                        "inputs that literally contain a backslash-accent-brace sequence are not generated (reading back would be ambiguous)"]
    ctx.model("MCTex", "MCTex.cfg", workers=core.NCPU, label="transducer over 9 character classes, all strings up to length 4")
    ctx.model("MCTex", "NegTex_next.cfg", workers=2, expect_violation="RoundTrip",
              label="negative self-test: applying the accent to the following character breaks the round trip")
    jobs = []
    stride = core.NCPU * (12 if quick else 1)
    bstride = core.NCPU * (16 if quick else 1)
    for k in range(core.NCPU):
        jobs.append({"script": "d_tex.py", "stdin_obj": {
            "seed": ctx.seed * 131 + k, "single": [stride, (k * (stride // core.NCPU) + ctx.seed) % stride], "procs": core.NCPU, "proc": k,
            "blocks": [bstride, (k * (bstride // core.NCPU) + ctx.seed) % bstride, 400],
            "random": (3200 if quick else 64000) // core.NCPU,
            "export": (320 if quick else 6400) // core.NCPU,
            "pairs": [core.NCPU, k, 2 if quick else 15],
            "pair_ranges": ([[0x20, 0x250], [0x370, 0x530], [0x1E00, 0x2000], [0x2C60, 0x2C80], [0xA720, 0xA800]] if quick
                            else [[0x20, 0x3000], [0xA000, 0xAC00], [0xF900, 0x10000], [0x1D400, 0x1D800]]),
            "texts": ["", "abc", "é", "́", "á̈", "…", " ", "½", "ﬁ", "Å"] if k == 0 else []}})
    recs = []
    for out in core.run_drivers_parallel(jobs):
        recs += out["records"]
    fails = ctx.validate("TexTrace", "TexTrace.cfg", recs, per_shard=600, heap="3g")
    for idx, inv in fails:
        rec = recs[idx]
        if not inv.startswith("C19_"):
            raise core.MachineryError("spec-side invariant %s failed" % inv)
        text = "".join(chr(c["cp"]) for c in rec["in"])
        ctx.report("%s err=%s" % (inv, rec["err"]), "input=%r" % text[:40], {"record": {"in_cps": [c["cp"] for c in rec["in"]][:60], "out": rec["out"][:80], "err": rec["err"]}})
    ctx.evaluations += len(recs)
    ctx.nontrivial += len({json.dumps([c["cp"] for c in r["in"]]) for r in recs if any(c["cp"] > 127 for c in r["in"])})
    ctx.sample({"in": recs[3]["in"], "out": recs[3]["out"], "err": recs[3]["err"]})


def replay(path):
    d = json.load(open(path))
    text = "".join(chr(c) for c in d["replay"]["record"]["in_cps"])
    out = core.run_driver("d_tex.py", stdin_obj={"texts": [text]})
    fails, _ = core.validate_records("TexTrace", "TexTrace.cfg", out["records"])
    for idx, inv in fails:
        print("VIOLATION property=C19 replay=%s\n  clause: %s" % (path, inv))
    return 1 if fails else 0
