# -*- coding: utf-8 -*-
"""C13 - linear ticks are round, evenly spaced, complete, in-domain, uniquely labelled."""
import json

import core
from props import lin_common as lc


def run(ctx):
    quick = ctx.tier == "quick"
    ctx.rule = ("(domain, m) pairs: every integer domain of a grid embedded at decades 1e-6..1e9 and either orientation, plus seeded random "
                "float domains (magnitude 1e-6..1e9, span 1e-3.5..1e1.5 of the magnitude); non-trivial = at least two ticks; distinct by (domain, m)")
    ctx.assumptions += ["floats are projected to integers in units of step/1000 (step/10 when the offset/step ratio is large); domains whose "
                        "offset exceeds ~2e7 steps are recorded relative to the last multiple of the step below the domain; what still does not fit 32 bits is discarded (counted)",
                        "the (mantissa, exponent) of the step is proposed by the harness and validated by TLC through C13_Multiples"]
    ctx.model("MCLinTicks", "MCLinTicks_quick.cfg" if quick else "MCLinTicks_thorough.cfg", workers=core.NCPU, heap="4g",
              label="tick step / count / completeness / nice laws on every integer domain of the grid x m")
    recs, disc = lc.gather_ticks(ctx)
    recs = [r for r in recs if r["kind"] == "ticks"]
    lc.check(ctx, "LinC13.cfg", recs, "C13_")
    # conformance of the operational tick model (LinTicks.Steps) with the observed tick lists: drift only
    drift, st = core.validate_records("LinTrace", "LinDrift.cfg", recs, per_shard=400)
    ctx.states += st["distinct"]
    ctx.transitions += st["generated"]
    ctx.extra["operational_model_conformance"] = {"tick_lists_compared": len(recs), "explained_by_LinTicks.tla": len(recs) - len(drift),
                                                  "spec_drift": len(drift)}
    if drift:
        ctx.notes.append("spec drift: %d tick lists are not reproduced by the operational model (first: %s)"
                         % (len(drift), json.dumps(recs[drift[0][0]])[:300]))
    ctx.evaluations += len(recs)
    ctx.nontrivial += len({json.dumps([r["dom"], r["m"]]) for r in recs if len(r["tq"]) >= 2})
    ctx.extra["discarded_outside_32bit"] = disc
    ctx.sample(recs[0])
    ctx.sample(recs[-1])


def replay(path):
    d = json.load(open(path))
    fails, _ = core.validate_records("LinTrace", "LinC13.cfg", [d["replay"]["record"]])
    for idx, inv in fails:
        print("VIOLATION property=C13 replay=%s\n  clause: %s (recorded observation re-validated)" % (path, inv))
    return 1 if fails else 0
