# -*- coding: utf-8 -*-
"""Shared by C01-C04: gathers Force.compute() records from the real code (driver d_layout.py)
and validates them with spec/LayoutTrace.tla under one property's cfg."""
import json

import core

SIZES = {
    # mode: (quick count, thorough count)
    "random": (640, 8000),
    "dense": (48, 480),
    "bounds": (640, 8000),
    "float": (320, 4000),
    "centi": (480, 6000),
    "sibling": (480, 6000),
    "far": (320, 4000),
    "offscreen": (64, 640),
    "relayout": (480, 6000),
    "budget": (320, 4000),
    "direct": (480, 6000),
}


def gather(ctx, modes, lattice=True):
    quick = ctx.tier == "quick"
    recs = []
    meta = []
    jobs = []
    tags = []
    if lattice:
        stride = 48 * core.NCPU if quick else 4 * core.NCPU
        for k in range(core.NCPU):
            jobs.append({"script": "d_layout.py", "stdin_obj": {
                "seed": 0, "mode": "lattice", "maxn": 3, "stride": stride,
                "offset": (k * (stride // core.NCPU) + ctx.seed) % stride}})
            tags.append("lattice")
    for m in modes:
        cnt = SIZES[m][0 if quick else 1]
        for k in range(core.NCPU):
            jobs.append({"script": "d_layout.py", "stdin_obj": {
                "seed": ctx.seed * 100003 + k * 101 + sum(map(ord, m)), "mode": m, "count": cnt // core.NCPU}})
            tags.append(m)
    # inputs of known findings are replayed on every run (F-01: two stubs around a narrow label, nodeSpacing 0)
    jobs.append({"script": "d_layout.py", "stdin_obj": {"seed": 0, "mode": "instances", "instances": [
        {"labels": [[3, 2], [3, 0.5], [3, 0.5], [6, 2]],
         "opts": {"nodeSpacing": 0, "minPos": 0, "maxPos": 4, "density": 1, "stubWidth": 2.5, "algorithm": "simple"}}]}})
    tags.append("pinned")
    errors = []
    for tag, out in zip(tags, core.run_drivers_parallel(jobs)):
        for r in out["records"]:
            recs.append(r)
            meta.append(tag)
        errors += out["errors"]
    return recs, meta, errors


def signature(inv, rec, tag):
    o = rec["opts"]
    return "%s alg=%s ns<1=%s walls=%d%d mode=%s" % (
        inv, o["alg"], int(o["ns"] < rec["U"]), o["hasMin"], o["hasMax"], tag)


def report_errors(ctx, errors, prefix):
    """compute() raised on an input of the quantifier: no layout was computed, so the property cannot hold for it."""
    for e in errors:
        if e.get("error") == "RecursionError":
            continue
        ctx.report("%sComputeCompletes err=%s" % (prefix, e["error"]), "labels=%d" % e.get("n", 0), {"error_record": e})


def check(ctx, cfg, recs, meta, prefix, per_shard=150):
    fails = ctx.validate("LayoutTrace", cfg, recs, per_shard=per_shard)
    for idx, inv in fails:
        rec = recs[idx]
        if not inv.startswith(prefix):
            raise core.MachineryError("spec-side invariant %s failed on a record: %s" % (inv, json.dumps(rec)[:800]))
        inst = {"labels": [[l["ideal"], l["w"]] for l in rec["labels"]], "U": rec["U"], "opts": rec["opts"]}
        ctx.report(signature(inv, rec, meta[idx]), "labels=%d layers=%d" % (len(rec["labels"]), len(rec["layers"])),
                   {"mode": meta[idx], "record": rec, "instance_in_units_of_1_over_U": inst})
    return fails


def moved(rec):
    return any(it["p"] != it["t"] for ly in rec["layers"] for it in ly)


def keyof(rec):
    return json.dumps([rec["opts"], rec["labels"]], sort_keys=True)


def replay(path, cfg):
    d = json.load(open(path))
    rec = d["replay"]["record"]
    U = rec["U"]
    o = rec["opts"]
    from fractions import Fraction as F

    def back(v):
        f = F(v, U)
        return int(f) if f.denominator == 1 else float(f)
    opts = {"nodeSpacing": back(o["ns"]), "minPos": back(o["minPos"]) if o["hasMin"] else None,
            "maxPos": back(o["maxPos"]) if o["hasMax"] else None, "density": float(F(o["densN"], o["densD"])),
            "stubWidth": back(o["stubW"]), "algorithm": o["alg"]}
    inst = {"labels": [[back(l["ideal"]), back(l["w"])] for l in rec["labels"]], "opts": opts,
            "U": U, "lattice": bool(rec["lattice"])}
    out = core.run_driver("d_layout.py", stdin_obj={"seed": 0, "mode": "instances", "instances": [inst]})
    fails, _ = core.validate_records("LayoutTrace", cfg, out["records"])
    pid = d["property"]
    for idx, inv in fails:
        print("VIOLATION property=%s replay=%s" % (pid, path))
        print("  clause: %s" % inv)
    return 1 if fails else 0
