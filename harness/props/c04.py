# -*- coding: utf-8 -*-
"""C04 - layering conserves labels and builds complete stub chains within capacity."""
import core
from props import layout_common as lc


def run(ctx):
    ctx.rule = ("layouts from the bounded lattice, random, dense and synthesised-bounds label sets; non-trivial = more than one layer "
                "(stubs exist); distinct by (options, labels)")
    ctx.assumptions += ["densities are dyadic or the capacity comparison is strict, so density*layerWidth is compared exactly (ties admit both outcomes)"]
    ctx.model("MCChain", "NegChain_allpairs.cfg", workers=2, expect_violation="RoundedSepAllPairs",
              label="(shared layer model self-test)")
    recs, meta, errors = lc.gather(ctx, ["random", "dense", "bounds", "relayout"])
    lc.check(ctx, "LayoutC04.cfg", recs, meta, "C04_")
    ctx.evaluations += len(recs)
    ctx.nontrivial += len({lc.keyof(r) for r in recs if len(r["layers"]) > 1})
    for r, m in zip(recs, meta):
        if len(r["layers"]) > 2 and len(r["labels"]) <= 5:
            ctx.sample({"kind": m, "record": r})
            break


def replay(path):
    return lc.replay(path, "LayoutC04.cfg")
