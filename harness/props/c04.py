# -*- coding: utf-8 -*-
"""C04 - layering conserves labels and builds complete stub chains within capacity."""
import core
from props import layout_common as lc


def run(ctx):
    ctx.rule = ("layouts from the bounded lattice, random, dense and synthesised-bounds label sets; non-trivial = more than one layer "
                "(stubs exist); distinct by (options, labels)")
    ctx.assumptions += ["densities are dyadic or the capacity comparison is strict, so density*layerWidth is compared exactly (ties admit both outcomes)"]
    ctx.model("MCChain", "NegChain_allpairs.cfg", workers=2, expect_violation="RoundedSepAllPairs",
              label="(shared layer model self-test)")
    quick = ctx.tier == "quick"
    ctx.model("MCDistributor", "MCDistributor_quick.cfg" if quick else "MCDistributor.cfg", workers=core.NCPU, heap="6g",
              label="operational layering model: conservation, capacity, single-layer rule on every label sequence of the lattice x options")
    ctx.model("MCDistributor", "NegDistributor_noescape.cfg", workers=4, expect_violation="CapacityNoEscape",
              label="negative self-test: without the 'at most two labels' escape clause the capacity bound is false")
    recs, meta, errors = lc.gather(ctx, ["random", "dense", "bounds", "centi", "sibling", "far", "relayout", "budget"])
    lc.report_errors(ctx, errors, "C04_")
    lc.check(ctx, "LayoutC04.cfg", recs, meta, "C04_")
    # conformance of the operational model with the observed layerings: drift is reported, never a verdict
    sub = [r for r in recs if r["lattice"] == 1 and r.get("fresh") == 1 and len(r["labels"]) <= 60][::(3 if quick else 1)]
    drift, st = core.validate_records("DistDrift", "DistDrift.cfg", sub, per_shard=300, heap="3g")
    ctx.states += st["distinct"]
    ctx.transitions += st["generated"]
    ctx.extra["operational_model_conformance"] = {"layerings_compared": len(sub), "explained_exactly_by_Distributor.tla": len(sub) - len(drift),
                                                  "spec_drift": len(drift)}
    msub = [r for r in recs if r.get("hasmetrics") == 1 and len(r["labels"]) <= 60][::(2 if quick else 1)]
    mdrift, st2 = core.validate_records("MetricsDrift", "MetricsDrift.cfg", msub, per_shard=400, heap="3g")
    ctx.states += st2["distinct"]
    ctx.transitions += st2["generated"]
    ctx.extra["metrics_conformance"] = {"layouts_compared": len(msub), "labella.metrics_equal_to_Metrics.tla": len(msub) - len(mdrift),
                                        "spec_drift": len(mdrift)}
    if drift:
        import json
        ctx.notes.append("spec drift: %d layerings are not reproduced by the operational model (first: %s)"
                         % (len(drift), json.dumps({k: sub[drift[0][0]][k] for k in ("opts", "labels")})[:400]))
    ctx.evaluations += len(recs)
    ctx.nontrivial += len({lc.keyof(r) for r in recs if len(r["layers"]) > 1})
    for r, m in zip(recs, meta):
        if len(r["layers"]) > 2 and len(r["labels"]) <= 5:
            ctx.sample({"kind": m, "record": r})
            break


def replay(path):
    return lc.replay(path, "LayoutC04.cfg")
