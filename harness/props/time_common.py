# -*- coding: utf-8 -*-
"""Shared by C14 (time), C15, C16, C18: TimeScale records validated with spec/TimeTrace.tla."""
import json

import core

CFG = {"ticks": "TimeC16.cfg", "nice": "TimeC14.cfg", "map": "TimeC15.cfg"}


def gather(ctx, mode, tz="UTC", scale=1.0):
    quick = ctx.tier == "quick"
    stride = max(1, int((4 if quick else 1) * core.NCPU / 1))
    jobs = []
    for k in range(core.NCPU):
        jobs.append({"script": "d_timescale.py", "tz": tz, "stdin_obj": {
            "seed": ctx.seed * 4099 + k * 11 + len(mode), "mode": mode,
            "curated": {"stride": stride, "offset": (k * (stride // core.NCPU) + ctx.seed) % stride},
            "random": int((2400 if quick else 48000) * scale) // core.NCPU,
            "exact": (int((800 if quick else 16000) * scale) // core.NCPU) if mode in ("ticks", "nice") else 0,
            "tiny": (int((2400 if quick else 48000) * scale) // core.NCPU) if mode == "map" else 0}})
    recs = []
    for out in core.run_drivers_parallel(jobs):
        recs += out["records"]
    return recs


def check(ctx, mode, recs, prefix, pid=None, zone="UTC"):
    fails = ctx.validate("TimeTrace", CFG[mode], recs, per_shard=1500, heap="3g")
    for idx, inv in fails:
        rec = recs[idx]
        if not inv.startswith(prefix):
            raise core.MachineryError("spec-side invariant %s failed: %s" % (inv, json.dumps(rec)[:600]))
        name = inv if pid is None else inv.replace(prefix, pid + "_" + prefix)
        ctx.report("%s err=%s zone=%s" % (name, rec.get("err", ""), zone), json.dumps(rec)[:400], {"record": rec, "zone": zone, "mode": mode})
    return fails


def replay(path, pid):
    d = json.load(open(path))
    rec = d["replay"]["record"]
    mode = d["replay"]["mode"]
    fails, _ = core.validate_records("TimeTrace", CFG[mode], [rec])
    for idx, inv in fails:
        print("VIOLATION property=%s replay=%s\n  clause: %s (recorded observation re-validated)" % (pid, path, inv))
    return 1 if fails else 0
