# -*- coding: utf-8 -*-
"""Binding demonstrations (DESIGN 13): take records observed from the REAL code on the clean tree (all accepted), corrupt one
field, and require that TLC rejects the corrupted record with the expected clause.  This shows that each clause of a trace
specification actually constrains the observation it is named after (non-vacuity of the binding).

Run:  ./check <id> --selftest   (one property)   or   python3 harness/selftest.py   (all).  Not a registered check."""
import copy
import json
import sys

import core


def _layout_records(n=60):
    out = core.run_driver("d_layout.py", stdin_obj={"seed": 11, "count": n, "mode": "random"})
    return [r for r in out["records"] if len(r["layers"]) >= 2 and len(r["layers"][0]) >= 3]


def _first(recs, pred):
    for r in recs:
        if pred(r):
            return copy.deepcopy(r)
    raise core.MachineryError("selftest: no suitable record")


def c01():
    recs = _layout_records()
    r = _first(recs, lambda r: True)
    r["layers"][0][1]["p"] = r["layers"][0][0]["p"]          # two items on the same spot
    yield "two items of a layer moved onto the same position", "LayoutTrace", "LayoutC01.cfg", r, "C01_SeparatedAdjacent"
    r = _first(recs, lambda r: r["layers"][0][0]["t"] < r["layers"][0][-1]["t"])
    a, b = r["layers"][0][0], r["layers"][0][-1]
    a["p"], b["p"] = b["p"], a["p"]                            # order of targets reversed
    yield "positions of the first and last item swapped", "LayoutTrace", "LayoutC01.cfg", r, "C01_Ordered"


def c02():
    recs = _layout_records()
    r = _first(recs, lambda r: r["lattice"] == 1 and r["opts"]["hasMax"] == 1)
    for ly in r["layers"]:
        for it in ly:
            it["p"] += 3 * r["U"]                              # whole layout shifted by 3 units: still separated, not optimal
    r["opts"]["maxPos"] += 100 * r["U"]
    yield "every position shifted by 3 units", "LayoutTrace", "LayoutC02.cfg", r, "C02_WithinHalfOfOptimum"
    out = core.run_driver("d_layout.py", stdin_obj={"seed": 0, "mode": "instances", "instances": [
        {"labels": [[10, 4], [11, 4], [30, 6]], "opts": {"nodeSpacing": 3, "minPos": None, "maxPos": None, "density": 1, "stubWidth": 1,
                                                        "algorithm": "none"}}]})
    r = copy.deepcopy(out["records"][0])
    for it in r["layers"][0]:
        it["p"] += r["U"]                                       # one unit: separation intact, 1 > 0.5 away from the optimum
    yield "every position shifted by 1 unit (no bounds)", "LayoutTrace", "LayoutC02.cfg", r, "C02_WithinHalfOfOptimum"


def c03():
    out = core.run_driver("d_layout.py", stdin_obj={"seed": 0, "mode": "instances", "instances": [
        {"labels": [[10, 4], [30, 4], [31, 6]], "opts": {"nodeSpacing": 3, "minPos": 0, "maxPos": 100, "density": 1, "stubWidth": 1,
                                                        "algorithm": "none"}}]})
    r = copy.deepcopy(out["records"][0])
    r["layers"][0][-1]["p"] = r["opts"]["maxPos"] + 2 * r["U"]  # last item pushed beyond the upper bound
    yield "last item pushed 2 units beyond maxPos although the layer fits", "LayoutTrace", "LayoutC03.cfg", r, "C03_Inside"


def c04():
    recs = _layout_records()
    r = _first(recs, lambda r: any(it["k"] == "S" for it in r["layers"][0]))
    idx = [i for i, it in enumerate(r["layers"][0]) if it["k"] == "S"][0]
    del r["layers"][0][idx]                                     # one stub removed from the nearest layer
    yield "one stub deleted from layer 0", "LayoutTrace", "LayoutC04.cfg", r, "C04_Chains"
    r = _first(recs, lambda r: r["hasrep"] == 1)
    r["rep"][0] = r["rep"][0][:-1]
    yield "reported layering lacks one item", "LayoutTrace", "LayoutC04.cfg", r, "C04_ReportedLayersMatch"


def c05():
    out = core.run_driver("d_vpsc.py", stdin_obj={"seed": 3, "count": 40, "mode": "small"})
    recs = out["records"]
    r = _first(recs, lambda r: any(r["act"]) and r["acyclic"])
    k = r["act"].index(1)
    v = r["cr"][k] - 1
    r["pos"][v] -= 5000                                         # right end of an active constraint moved left by 0.5
    r["pos6"][v] -= 500000
    yield "a variable moved 0.5 into a tight constraint", "VpscTrace", "VpscTrace.cfg", r, "C05_Feasible"
    r = _first(recs, lambda r: r["acyclic"] and not any(r["act"]) and r["terminated"])
    r["pos"][0] += 100                                          # a free variable 0.01 away from its desired position
    yield "a free variable moved by 0.01", "VpscTrace", "VpscTrace.cfg", r, "C05_Optimal"
    r = _first(recs, lambda r: r["acyclic"] and r["ret12"])
    r["ret12"] = list(r["ret12"])
    r["ret12"][-1] = (r["ret12"][-1] + 7) % 10000 or 1
    yield "returned cost altered", "VpscTrace", "VpscTrace.cfg", r, "C05_CostConsistent"
    # full-precision cost consistency on a heavy instance: an error of 5e-5 in the reported cost is far inside the allowance of
    # the 1e-6 grid (wall-like weights) and must be rejected by the fine clause
    out = core.run_driver("d_vpsc.py", stdin_obj={"seed": 4, "count": 120, "mode": "heavy"})
    val = lambda l: sum(d * 10000 ** i for i, d in enumerate(l))
    # (an instance whose heavy variables hardly move: cost below 1, so the allowance is about 1e-6)
    allowance = lambda r: sum(val(w) * (val(d) + 1) for w, d in zip(r["wt100"], r["disp12"])) + 10 ** 20 + val(r["ret26"]) // 10 ** 8
    r = _first(out["records"], lambda r: r["terminated"] and r["ret26"] and allowance(r) < 10 ** 21)
    big = val(r["ret26"]) + 5 * 10 ** 21
    limbs = []
    while big:
        limbs.append(big % 10000)
        big //= 10000
    r["ret26"] = limbs
    yield "returned cost of a heavy instance off by 5e-5", "VpscBig", "VpscBig.cfg", r, "C05_CostConsistentFine"


def _draw_records():
    out = core.run_driver("d_timeline.py", stdin_obj={"seed": 21, "mode": "draw", "count": 30, "ns_min": 3})
    return out["records"]


def c07():
    recs = _draw_records()
    r = _first(recs, lambda r: r["svg"]["n"] >= 2 and r["svg"]["scale"] == "time" and r["svg"]["domt"][0] != r["svg"]["domt"][1])
    r["svg"]["dots"][0]["pos5"] += 50000                        # a dot half a unit away from its true time
    yield "one SVG dot moved by 0.5", "DrawTrace", "DrawC07.cfg", r, "C07_DotsAtTrueTime"
    r = _first(recs, lambda r: r["svg"]["n"] >= 2 and r["svg"]["boxes"][0]["text"] != r["svg"]["boxes"][1]["text"])
    b = r["svg"]["boxes"]
    b[0]["text"], b[1]["text"] = b[1]["text"], b[0]["text"]
    yield "texts of two boxes swapped", "DrawTrace", "DrawC07.cfg", r, "C07_TextVerbatim"
    r = _first(recs, lambda r: r["svg"]["n"] >= 1)
    r["svg"]["dots"][0]["pos5"] = r["svg"]["L5"] + 200000       # a dot two units beyond the end of the axis
    yield "one SVG dot beyond the end of the axis", "DrawTrace", "DrawC07.cfg", r, "C07_DotsOnAxisSegment"


def c08():
    recs = _draw_records()
    r = _first(recs, lambda r: r["svg"]["n"] >= 2)
    b = r["svg"]["boxes"]
    b[1]["x5"], b[1]["y5"] = b[0]["x5"], b[0]["y5"]
    yield "one box drawn on top of another", "DrawTrace", "DrawC08.cfg", r, "C08_Disjoint"


def c09():
    recs = _draw_records()
    r = _first(recs, lambda r: r["svg"]["n"] >= 1)
    r["tikz"]["boxes"][0]["x5"] += 100000
    yield "TikZ box origin off by one unit", "DrawTrace", "DrawC09.cfg", r, "C09_SameBoxes"
    r = _first(recs, lambda r: r["svg"]["n"] >= 1)
    r["tikz"]["dots"][0]["rgb"] = [1, 2, 3]
    yield "TikZ dot colour differs", "DrawTrace", "DrawC09.cfg", r, "C09_SameColours"


def c06():
    for x in c06_engine():
        yield x
    h = [{"a": "N", "n": 0, "x": 8, "y": 4}, {"a": "S", "n": 1, "x": 4, "y": 0}, {"a": "M", "n": 1, "x": 20, "y": 0}, {"a": "R", "n": 1, "x": 0, "y": 0}]
    out = core.run_driver("d_node.py", stdin_obj={"seed": 1, "histories": [h], "count": 0})
    r = out["records"][0]
    r["ev"][1]["obs"][0]["path"] = [1]
    yield "node heap: a label with a stub reports a path that stops at itself (model conformance)", "NodeTrace", "NodeTrace.cfg", r, "Drift_NodeObservers"
    r = json.loads(json.dumps(out["records"][0]))
    r["ev"][1]["obs"][0]["path"] = [1, 2]
    r["ev"][3]["obs"][1]["stub"] = 1
    yield "node heap: a detached stub still claims to be a stub (model conformance)", "NodeTrace", "NodeTrace.cfg", r, "Drift_NodeObservers"


def c06_engine():
    out = core.run_driver("d_engine.py", stdin_obj={"random": {"seed": 5, "count": 12}})
    r = _first(out["records"], lambda r: any(e["a"] == "C" and e.get("ref0") for e in r["ev"]))
    for e in r["ev"]:
        if e["a"] == "C" and e.get("ref0"):
            e["ref0"] = copy.deepcopy(e["ref0"])
            e["ref0"][0][3] += 4                                # the history-free process puts one label one unit elsewhere
            break
    yield "history-free reference differs by one unit in one label", "EngineTrace", "EngineTrace.cfg", {"ev": r["ev"]}, "C06_PureOfProcessHistory"


def c12():
    out = core.run_driver("d_linscale.py", stdin_obj={"mode": "map", "seed": 1, "grid": 2, "count": 0})
    recs = out["records"]
    r = _first(recs, lambda r: r["kind"] == "map" and r["clamp"] == 0 and r["y"][0] == 1 and len(r["y"][1]) > 1)
    r["y"][1][1] = (r["y"][1][1] + 100) % 10000
    yield "a mapped value changed in the 7th significant digit", "LinTrace", "LinC12.cfg", r, "C12_Affine"


def c13():
    out = core.run_driver("d_linscale.py", stdin_obj={"mode": "ticks", "seed": 1, "count": 60})
    recs = [r for r in out["records"] if r["kind"] == "ticks" and len(r["tq"]) >= 4]
    r = _first(recs, lambda r: True)
    del r["tq"][1], r["n"][1], r["lab"][1], r["lq"][1], r["lok"][1]
    yield "one inner tick removed", "LinTrace", "LinC13.cfg", r, "C13_Multiples"
    r = _first(recs, lambda r: r["Q"] == 1000)
    r["tq"][1] += 10 * r["mant"]                                # 1% of the step
    yield "one tick 1% of a step off its multiple", "LinTrace", "LinC13.cfg", r, "C13_Multiples"
    r = _first(recs, lambda r: True)
    r["lab"][1] = r["lab"][0]
    yield "two ticks carry the same label", "LinTrace", "LinC13.cfg", r, "C13_LabelsDistinct"


def c14():
    out = core.run_driver("d_linscale.py", stdin_obj={"mode": "ticks", "seed": 2, "count": 60})
    recs = [r for r in out["records"] if r["kind"] == "nice" and r["Q"] == 1000]
    r = _first(recs, lambda r: True)
    r["nlo"] = r["lo"] + 20 * r["mant"]                         # lower end moved INWARD by 2% of a step
    yield "niced lower end 2% of a step inside the domain", "LinTrace", "LinC14.cfg", r, "C14_NeverInward"
    out = core.run_driver("d_timescale.py", stdin_obj={"seed": 1, "mode": "nice", "random": 60})
    recs = [r for r in out["records"] if len(r["ticks"]) >= 3 and r["ticks"][1][0] - r["ticks"][0][0] >= 1]
    r = _first(recs, lambda r: True)
    lo = min(r["niced"], key=lambda x: (x[0], x[1]))
    lo[0] -= 4000                                               # lower end moved out by 4000 days: far more than two tick steps? only if ticks are finer
    yield "niced lower end moved out by 4000 days", "TimeTrace", "TimeC14.cfg", r, "C14_LessThanTwoTickSteps"


def c15():
    out = core.run_driver("d_timescale.py", stdin_obj={"seed": 1, "mode": "map", "random": 40})
    recs = out["records"]
    r = _first(recs, lambda r: r["inside"] == 1 and r["r0"] != r["r1"])
    r["inv"][1] = (r["inv"][1] + 5) % 86400000
    yield "inverted instant 5 ms off", "TimeTrace", "TimeC15.cfg", r, "C15_InvertWithin1ms"
    r = _first(recs, lambda r: r["y"][0] != 0 and len(r["y"][1]) >= 3)
    r["y"][1][0] = (r["y"][1][0] + 5000) % 10000           # mapped position changed by 5e-6 (x 1e9 units: 5000)
    yield "a mapped position changed by 5e-6", "TimeTrace", "TimeC15.cfg", r, "C15_Proportional"
    h = [{"a": "D", "i": 1, "x": "dA"}, {"a": "Y", "i": 1, "x": ""}, {"a": "N", "i": 2, "x": "10"}, {"a": "T", "i": 1, "x": "10"}]
    out = core.run_driver("d_timescale.py", stdin_obj={"seed": 1, "mode": "hist", "histories": [h], "count": 0})
    r = out["records"][0]
    r["ev"][2]["obs"][1]["e1"] = 0
    yield "history: a niced copy no longer maps its reported domain end to its range end", "TimeHistTrace", "TimeHistTrace.cfg", r, "C15_EndpointsMapAfterHistory"
    r = json.loads(json.dumps(out["records"][0]))
    r["ev"][2]["obs"][1]["e1"] = 1
    r["ev"][2]["obs"][0]["d"][0] = "1999-01-01T00:00:00"
    yield "history: nice() on the copy changed the original's reported domain (model conformance)", "TimeHistTrace", "TimeHistDrift.cfg", r, "Drift_CopyIndependent"


def c16():
    out = core.run_driver("d_timescale.py", stdin_obj={"seed": 1, "mode": "ticks", "random": 60})
    recs = [r for r in out["records"] if len(r["ticks"]) >= 4 and r["ticks"][0][0] != r["ticks"][-1][0]]
    r = _first(recs, lambda r: True)
    r["ticks"][1][1] = (r["ticks"][1][1] + 1234) % 86400000
    yield "one tick 1.234 s off its calendar boundary", "TimeTrace", "TimeC16.cfg", r, "C16_BoundaryClass"
    r = _first(recs, lambda r: True)
    hi = max(r["dom"], key=lambda x: (x[0], x[1]))
    r["ticks"].append([hi[0] + 400, 0, 0])                      # a tick far beyond the domain
    yield "a tick 400 days beyond the domain", "TimeTrace", "TimeC16.cfg", r, "C16_InDomain"


def c17():
    out = core.run_driver("d_calendar.py", stdin_obj={"seed": 1, "random": 50})
    recs = out["records"]
    r = _first(recs, lambda r: r["op"] == "floor" and r["u"] == "month")
    r["out"][0] += 1
    yield "month floor one day late", "CalTrace", "CalC17.cfg", r, "C17_Floor"
    r = _first(recs, lambda r: r["op"] == "range" and len(r["outs"]) >= 3)
    del r["outs"][1]
    yield "a boundary missing from a range", "CalTrace", "CalC17.cfg", r, "C17_Range"


def c19():
    out = core.run_driver("d_tex.py", stdin_obj={"seed": 1, "texts": ["café au lait", "näive"]})
    recs = out["records"]
    r = copy.deepcopy(recs[0])
    i = r["out"].index(101)                                      # the 'e' inside \'{e}
    r["out"][i] = 97
    yield "accent applied to a different base letter", "TexTrace", "TexTrace.cfg", r, "C19_OnlyAccentsReplaced"


def c20():
    out = core.run_driver("d_names.py", stdin_obj={"name_blocks": [[650, 60]], "hex3": [4000, 7]})
    recs = out["records"]
    r = copy.deepcopy(recs[0])
    r["names"][30] = r["names"][29]
    yield "two consecutive indices share a name", "NamesTrace", "NamesTrace.cfg", r, "C20_NameOrder"
    r = _first(recs, lambda r: r["kind"] == "hex")
    r["html"] = r["html"][:-1] + ("0" if r["html"][-1] != "0" else "1")
    yield "HTML code differs in the last digit", "NamesTrace", "NamesTrace.cfg", r, "C20_ColoursAgree"


TABLE = {"C01": c01, "C02": c02, "C03": c03, "C04": c04, "C05": c05, "C06": c06, "C07": c07, "C08": c08, "C09": c09, "C12": c12, "C13": c13,
         "C14": c14, "C15": c15, "C16": c16, "C17": c17, "C19": c19, "C20": c20}


def run(pid):
    if pid not in TABLE:
        print("no selftest for %s" % pid)
        return 0
    bad = 0
    for what, module, cfg, rec, clause in TABLE[pid]():
        expect = "init" if module in ("VpscTrace", "TimeHistTrace", "LinHistTrace", "NodeTrace", "EngineTrace") else "distinct"
        fails, _ = core.validate_records(module, cfg, [rec], expect=expect)
        names = [f[1] for f in fails]
        ok = clause in names
        print("%s selftest: %-62s -> %s %s" % (pid, what, "rejected by " + clause if ok else "NOT REJECTED", "" if ok else names))
        bad += 0 if ok else 1
    return 2 if bad else 0


if __name__ == "__main__":
    rc = 0
    for p in (sys.argv[1:] or sorted(TABLE)):
        rc |= run(p)
    sys.exit(rc)
