# -*- coding: utf-8 -*-
"""Shared machinery: TLC invocation/parsing, trace sharding, evidence, known findings.

Verdict policy (DESIGN section 7): a VIOLATION is only ever raised for a property
predicate that TLC evaluated to FALSE on a record observed from the real code (or an
exception/transition the property itself forbids).  TLC errors, overflow, timeouts and
unparsable output are machinery failures (exit 2), never VIOLATION lines.
"""
import hashlib
import json
import os
import re
import shutil
import subprocess
import sys
import tempfile
import time
from concurrent.futures import ThreadPoolExecutor

VERIF = os.path.dirname(os.path.dirname(os.path.abspath(__file__)))
SPEC = os.path.join(VERIF, "spec")
REPO = os.environ.get("VERIF_REPO", "/repo")
PY = os.environ.get("VERIF_PY", "/venv/bin/python")
JAVA_CP = "/opt/veriftools/tla/tla2tools.jar:/opt/veriftools/tla/CommunityModules-deps.jar"
NCPU = max(1, min(16, os.cpu_count() or 1))
# mutation campaign (tools/try_mutant.py): evidence and replays of runs against a scratch worktree go elsewhere
OUT = os.environ.get("VERIF_OUT", VERIF)


class MachineryError(Exception):
    pass


# --------------------------------------------------------------------------- TLC

class TLCResult(object):
    def __init__(self):
        self.generated = 0
        self.distinct = 0
        self.violations = []  # list of (invariant name, {var: text})
        self.errors = []  # other TLC errors (machinery)
        self.raw = ""
        self.rc = None
        self.printed = []  # values printed by PrintT / Print
        self.wall = 0.0
        self.postcondition_failed = False
        self.init_states = None

    @property
    def ok(self):
        return not self.violations and not self.errors and not self.postcondition_failed


_RE_STATS = re.compile(
    r"(\d+) states generated, (\d+) distinct states found, (\d+) states left on queue"
)
_RE_SIMSTATES = re.compile(r"^The number of states generated: (\d+)")
_RE_INITS = re.compile(r"Finished computing initial states: (\d+) distinct state")
_RE_INV = re.compile(r"^Error: Invariant (\S+) is violated")
_RE_PROP = re.compile(r"^Error: (?:Action property|Temporal properties?) (.*) (?:is|were) violated")


def parse_tlc_output(text):
    res = TLCResult()
    res.raw = text
    lines = text.splitlines()
    i = 0
    n = len(lines)
    while i < n:
        ln = lines[i]
        m = _RE_STATS.search(ln)
        if m:
            res.generated = int(m.group(1))
            res.distinct = int(m.group(2))
        ms = _RE_SIMSTATES.search(ln)
        if ms:
            res.generated = res.distinct = int(ms.group(1))
        mi = _RE_INITS.search(ln)
        if mi:
            res.init_states = int(mi.group(1))
        m = _RE_INV.match(ln)
        m2 = _RE_PROP.match(ln) if not m else None
        if m or m2 or ln.startswith("Error: Temporal properties were violated"):
            name = m.group(1) if m else (m2.group(1) if m2 else "Temporal")
            # collect the LAST state printed in the behaviour that follows
            j = i + 1
            state = {}
            cur = None
            last_state = {}
            while j < n:
                l2 = lines[j]
                if l2.startswith("Error: The behavior up to this point") or l2.startswith("Error: The following behavior"):
                    j += 1
                    continue
                if l2.startswith("State ") or re.match(r"^\d+: ", l2):
                    if state:
                        last_state = state
                    state = {}
                    cur = None
                elif l2.startswith("/\\ ") or (cur is None and re.match(r"^\w+ = ", l2)):
                    body = l2[3:] if l2.startswith("/\\ ") else l2
                    mm = re.match(r"^(\w+) = (.*)$", body)
                    if mm:
                        cur = mm.group(1)
                        state[cur] = mm.group(2)
                elif l2.startswith("Error:") or _RE_STATS.search(l2) or l2.startswith("Finished") or l2.startswith("Computed ") \
                        or l2.startswith("Progress") or l2.startswith("The number of states"):
                    break
                elif cur is not None and l2.strip() != "":
                    state[cur] += " " + l2.strip()
                j += 1
            if state:
                last_state = state
            res.violations.append((name, last_state))
            i = j
            continue
        if ln.startswith("Error:"):
            if "The behavior up to this point is" in ln:
                pass
            elif "Postcondition" in ln or "POSTCONDITION" in ln:
                res.postcondition_failed = True
            else:
                # gather a few following lines for context
                res.errors.append(" | ".join(lines[i:i + 6]))
        i += 1
    return res


def run_tlc(module, cfg, env=None, workers=1, simulate=None, depth=None, seed=None,
            cont=False, timeout=3600, extra=None, dump=None, java_props=None, heap="2g",
            deadlock=None, coverage=False):
    """Run TLC on spec/<module>.tla with spec/<cfg>; returns TLCResult.

    TLC runs with cwd = /verif/spec and a private -metadir that is removed afterwards.
    """
    meta = tempfile.mkdtemp(prefix="vtlc_")
    if workers <= 1:
        cmd = ["java", "-XX:+UseSerialGC", "-Xmx" + heap, "-Xss64m"]
    else:
        cmd = ["java", "-XX:+UseParallelGC", "-XX:ParallelGCThreads=4", "-Xmx" + heap, "-Xss64m"]
    for k, v in (java_props or {}).items():
        cmd.append("-D%s=%s" % (k, v))
    cmd += ["-cp", JAVA_CP, "tlc2.TLC", "-metadir", meta, "-noGenerateSpecTE",
            "-workers", str(workers), "-config", cfg]
    if simulate is not None:
        cmd += ["-simulate", simulate]
    if depth is not None:
        cmd += ["-depth", str(depth)]
    if seed is not None:
        cmd += ["-seed", str(seed)]
    if cont:
        cmd += ["-continue"]
    if dump:
        cmd += ["-dump"] + dump
    if deadlock is False:
        cmd += ["-deadlock"]
    if coverage:
        cmd += ["-coverage", "1"]
    cmd += list(extra or [])
    cmd.append(module)
    e = dict(os.environ)
    e.update(env or {})
    t0 = time.time()
    try:
        p = subprocess.run(cmd, cwd=SPEC, env=e, stdout=subprocess.PIPE,
                           stderr=subprocess.STDOUT, timeout=timeout)
        out = p.stdout.decode("utf-8", "replace")
        rc = p.returncode
    except subprocess.TimeoutExpired as ex:
        out = (ex.stdout or b"").decode("utf-8", "replace") + "\nError: TIMEOUT in harness"
        rc = -9
    finally:
        shutil.rmtree(meta, ignore_errors=True)
    res = parse_tlc_output(out)
    res.rc = rc
    res.wall = time.time() - t0
    if rc not in (0, 12, 13) and not res.violations and not res.errors:
        res.errors.append("tlc exit %s: %s" % (rc, out[-800:]))
    return res


# --------------------------------------------------------------------------- Apalache (unbounded theorems)


def run_apalache(module, inv, init="Init", length=0, timeout=900):
    """apalache-mc check on spec/<module>.tla: returns ("holds" | "violated" | "inconclusive", wall seconds, tail of output).
    Used only for theorems over unbounded integers that TLC decides on a lattice; TLC stays the deciding tool."""
    exe = shutil.which("apalache-mc") or "/opt/veriftools/apalache/bin/apalache-mc"
    out = tempfile.mkdtemp(prefix="vapa_")
    t0 = time.time()
    try:
        p = subprocess.run([exe, "check", "--init=" + init, "--inv=" + inv, "--length=%d" % length, "--out-dir=" + out,
                            "--run-dir=" + os.path.join(out, "run"), os.path.join(SPEC, module + ".tla")],
                           cwd=out, stdout=subprocess.PIPE, stderr=subprocess.STDOUT, timeout=timeout)
        text = p.stdout.decode("utf-8", "replace")
    except (subprocess.TimeoutExpired, OSError) as ex:
        return "inconclusive", time.time() - t0, str(ex)[:300]
    finally:
        shutil.rmtree(out, ignore_errors=True)
    if "The outcome is: NoError" in text:
        return "holds", time.time() - t0, text[-300:]
    if "The outcome is: Error" in text and "invariant 0 violated" in text:
        return "violated", time.time() - t0, text[-300:]
    return "inconclusive", time.time() - t0, text[-600:]


# --------------------------------------------------------------------------- TLA+ values printed by TLC


def parse_history_dump(text, var="h"):
    """Read the history variable (a sequence of flat records of strings/integers) of every state of a TLC
    state dump (-dump).  TLC prints record fields in its own order, so records are parsed field by field."""
    out = []
    for m in re.finditer(r"^/\\ %s = <<(.*?)>>\n(?=/\\|\n|$)" % re.escape(var), text, re.M | re.S):
        body = m.group(1)
        evs = []
        for rm in re.finditer(r"\[([^\[\]]*)\]", body):
            rec = {}
            for fm in re.finditer(r'(\w+) \|-> (?:"([^"]*)"|(-?\d+))', rm.group(1)):
                rec[fm.group(1)] = fm.group(2) if fm.group(3) is None else int(fm.group(3))
            evs.append(rec)
        out.append(evs)
    return out


# --------------------------------------------------------------------------- traces


def write_ndjson(path, records):
    with open(path, "w") as f:
        for r in records:
            f.write(json.dumps(r, separators=(",", ":")))
            f.write("\n")


def check_int_range(obj, path="$"):
    """TLC integers are 32-bit and JsonDeserialize mangles larger ones: refuse them."""
    if isinstance(obj, bool):
        return
    if isinstance(obj, int):
        if not (-2147483647 <= obj <= 2147483647):
            raise MachineryError("integer out of TLC range at %s: %r" % (path, obj))
    elif isinstance(obj, float):
        raise MachineryError("float in trace record at %s: %r" % (path, obj))
    elif isinstance(obj, dict):
        for k, v in obj.items():
            check_int_range(v, path + "." + str(k))
    elif isinstance(obj, (list, tuple)):
        for i, v in enumerate(obj):
            check_int_range(v, "%s[%d]" % (path, i))


def validate_records(module, cfg, records, shards=None, timeout=3600, env=None, heap="2g",
                     check_ints=True, expect="distinct", per_shard=200):
    """Validate call/return records (shape 1): every record is one initial state `r`;
    every property clause is one INVARIANT of `cfg`.  TLC runs with -continue so that all
    offending records are listed.  Returns (failures, stats) where failures is a list of
    (record_index, invariant_name) and stats has TLC's own counters.

    The trace module must define  Trace == ndJsonDeserialize(IOEnv.TRACE_FILE)  and
    Init == r \\in 1..Len(Trace);  acceptance requires distinct states = Len(Trace).
    """
    if not records:
        return [], {"generated": 0, "distinct": 0, "accepted": 0, "wall": 0.0, "jvms": 0}
    if check_ints:
        for i, r in enumerate(records):
            check_int_range(r, "rec[%d]" % i)
    if shards is None:
        shards = max(1, min(NCPU, len(records) // per_shard + 1))
    tmp = tempfile.mkdtemp(prefix="vtrace_")
    try:
        per = (len(records) + shards - 1) // shards
        jobs = []
        for s in range(shards):
            chunk = records[s * per:(s + 1) * per]
            if not chunk:
                continue
            pth = os.path.join(tmp, "t%d.ndjson" % s)
            write_ndjson(pth, chunk)
            jobs.append((s * per, len(chunk), pth))

        def one(job):
            base, cnt, pth = job
            e = {"TRACE_FILE": pth}
            e.update(env or {})
            res = run_tlc(module, cfg, env=e, workers=1, cont=True, timeout=timeout, heap=heap)
            return base, cnt, res

        with ThreadPoolExecutor(max_workers=NCPU) as ex:
            outs = list(ex.map(one, jobs))
    finally:
        shutil.rmtree(tmp, ignore_errors=True)
    failures = []
    gen = dist = 0
    wall = 0.0
    for base, cnt, res in outs:
        if res.errors:
            raise MachineryError("TLC error validating %s/%s: %s" % (module, cfg, res.errors[0][:1500]))
        gen += res.generated
        dist += res.distinct
        wall = max(wall, res.wall)
        seen = res.distinct if expect == "distinct" else res.init_states
        if seen != cnt:
            raise MachineryError(
                "trace not fully consumed by %s/%s: %d records, %s states\n%s"
                % (module, cfg, cnt, seen, res.raw[-1500:]))
        for name, st in res.violations:
            key = "r" if "r" in st else "tid"
            if key not in st:
                raise MachineryError("violation without record index: %r %r" % (name, st))
            mr = re.match(r"^\s*(\d+)", st[key])
            if not mr:
                raise MachineryError("unparsable record index %r" % (st[key],))
            failures.append((base + int(mr.group(1)) - 1, name))
    failures.sort()
    return failures, {"generated": gen, "distinct": dist, "accepted": len(records) - len({f[0] for f in failures}),
                      "wall": wall, "jvms": len(outs)}


# --------------------------------------------------------------------------- context


class Ctx(object):
    """Per-check bookkeeping: counters for the evidence file, violations, known findings."""

    def __init__(self, pid, tier, seed):
        self.pid = pid
        self.tier = tier
        self.seed = seed
        self.t0 = time.time()
        self.states = 0
        self.transitions = 0
        self.traces = 0
        self.evaluations = 0
        self.nontrivial = 0
        self.rule = ""
        self.samples = []
        self.extra = {}
        self.assumptions = []
        self.violations = []  # (signature, replay_path, text)
        self.known_hits = []
        self.notes = []
        self.tlc_runs = []
        kf = os.path.join(VERIF, "known_findings.json")
        self.known = []
        if os.path.exists(kf):
            with open(kf) as f:
                d = json.load(f)
            self.known = [k for k in d.get("known", []) if k.get("property") == pid]

    # ---- TLC model runs (design level)
    def model(self, module, cfg, expect_violation=None, label=None, **kw):
        """Run a model-checking config.  Main configs must pass; negative configs
        (expect_violation = invariant name) must produce that counterexample."""
        res = run_tlc(module, cfg, **kw)
        self.states += res.distinct
        self.transitions += res.generated
        entry = {"module": module, "cfg": cfg, "distinct": res.distinct, "generated": res.generated,
                 "wall_s": round(res.wall, 1)}
        if label:
            entry["label"] = label
        if expect_violation:
            names = [v[0] for v in res.violations]
            entry["expected_counterexample"] = expect_violation
            entry["got"] = names
            self.tlc_runs.append(entry)
            if expect_violation not in names or res.errors:
                raise MachineryError("negative config %s/%s did not produce %s: %s %s"
                                     % (module, cfg, expect_violation, names, res.errors[:1]))
            return res
        self.tlc_runs.append(entry)
        if not res.ok:
            raise MachineryError("model %s/%s failed: violations=%s errors=%s\n%s"
                                 % (module, cfg, [v[0] for v in res.violations], res.errors[:2], res.raw[-3000:]))
        if res.distinct == 0:
            raise MachineryError("model %s/%s explored no states\n%s" % (module, cfg, res.raw[-1500:]))
        return res

    # ---- Apalache: theorems over unbounded integers (design level)
    def theorems(self, module, invs, neg=None, label=None):
        """invs: invariants that must hold for Init (every integer value); neg = (init, inv): must be violated.
        A solver that does not answer in time leaves the theorem undecided (a note, TLC's bounded result stands);
        an answer opposite to the expected one is a machinery failure, like a failing model run."""
        jobs = [("Init", i, "holds") for i in invs] + ([(neg[0], neg[1], "violated")] if neg else [])
        with ThreadPoolExecutor(max_workers=len(jobs)) as ex:
            outs = list(ex.map(lambda j: run_apalache(module, j[1], init=j[0]), jobs))
        for (init, inv, want), (got, wall, tail) in zip(jobs, outs):
            self.tlc_runs.append({"module": module, "tool": "apalache", "init": init, "invariant": inv, "expected": want, "got": got,
                                  "wall_s": round(wall, 1), "label": label})
            if got == "inconclusive":
                self.notes.append("apalache undecided on %s/%s (%s): %s" % (module, inv, init, tail[-200:]))
            elif got != want:
                raise MachineryError("apalache: %s/%s from %s expected %s, got %s\n%s" % (module, inv, init, want, got, tail))

    # ---- trace validation
    def validate(self, module, cfg, records, **kw):
        failures, st = validate_records(module, cfg, records, **kw)
        self.states += st["distinct"]
        self.transitions += st["generated"]
        self.traces += st["accepted"]
        self.tlc_runs.append({"module": module, "cfg": cfg, "records": len(records),
                              "accepted": st["accepted"], "jvms": st["jvms"], "wall_s": round(st["wall"], 1)})
        return failures

    # ---- findings
    def match_known(self, signature):
        for k in self.known:
            if re.search(k["signature"], signature):
                return k
        return None

    def report(self, signature, detail, replay_obj):
        """Report a violation of the property.  signature is a stable string describing
        the failing clause and input class; it is matched against known findings."""
        k = self.match_known(signature)
        if k is not None:
            if k["id"] not in [h["id"] for h in self.known_hits]:
                self.known_hits.append(k)
                print("KNOWN-FINDING: property=%s %s" % (self.pid, k["description"]))
            return False
        d = os.path.join(OUT, "replays", self.pid)
        os.makedirs(d, exist_ok=True)
        blob = json.dumps({"property": self.pid, "signature": signature, "detail": detail,
                           "replay": replay_obj}, indent=1, sort_keys=True, default=str)
        h = hashlib.sha256(blob.encode()).hexdigest()[:12]
        path = os.path.join(d, h + ".json")
        with open(path, "w") as f:
            f.write(blob)
        if len(self.violations) < 25:
            print("VIOLATION property=%s replay=%s" % (self.pid, path))
            print("  clause: %s" % signature)
            print("  detail: %s" % (str(detail)[:600]))
        self.violations.append((signature, path))
        return True

    def sample(self, obj, limit=6):
        if len(self.samples) < limit:
            self.samples.append(obj)

    def finish(self):
        cov = {
            "states": self.states,
            "transitions": self.transitions,
            "traces_validated_against_impl": self.traces,
            "samples": self.samples if self.samples else [{"note": "no sample recorded"}],
            "evaluations": self.evaluations,
            "distinct_nontrivial": self.nontrivial,
            "rule": self.rule,
            "tlc_runs": self.tlc_runs,
            "known_findings_reprovoked": [k["id"] for k in self.known_hits],
            "notes": self.notes,
        }
        cov.update(self.extra)
        ev = {
            "property_id": self.pid,
            "tier": self.tier,
            "seed": self.seed,
            "level": "model_checking",
            "coverage": cov,
            "assumptions": self.assumptions,
            "wall_s": round(time.time() - self.t0, 2),
            "violations": len(self.violations),
        }
        os.makedirs(os.path.join(OUT, "evidence"), exist_ok=True)
        with open(os.path.join(OUT, "evidence", self.pid + ".json"), "w") as f:
            json.dump(ev, f, indent=1, default=str)
            f.write("\n")
        if self.violations:
            print("%s: %d violation(s)" % (self.pid, len(self.violations)))
            return 1
        print("%s: ok tier=%s states=%d transitions=%d traces=%d wall=%.1fs"
              % (self.pid, self.tier, self.states, self.transitions, self.traces, time.time() - self.t0))
        return 0


# --------------------------------------------------------------------------- drivers


def run_driver(script, args=None, env=None, stdin_obj=None, timeout=3600, tz="UTC"):
    """Run a driver in a fresh interpreter that imports labella from REPO's working tree.
    The driver prints one JSON document on stdout."""
    e = dict(os.environ)
    e["PYTHONPATH"] = REPO + os.pathsep + os.path.join(VERIF, "harness")
    e["PYTHONHASHSEED"] = "0"
    e["PYTHONDONTWRITEBYTECODE"] = "1"
    e["TZ"] = tz
    e["LC_ALL"] = "C"
    e.update(env or {})
    cmd = [PY, "-B", os.path.join(VERIF, "harness", "drivers", script)] + list(args or [])
    p = subprocess.run(cmd, env=e, input=(json.dumps(stdin_obj).encode() if stdin_obj is not None else None),
                       stdout=subprocess.PIPE, stderr=subprocess.PIPE, timeout=timeout, cwd="/")
    if p.returncode != 0:
        raise MachineryError("driver %s failed rc=%s: %s" % (script, p.returncode, p.stderr.decode()[-3000:]))
    try:
        return json.loads(p.stdout.decode())
    except Exception as ex:
        raise MachineryError("driver %s printed unparsable output: %s ... %s" % (script, ex, p.stdout[:300]))


def run_drivers_parallel(jobs):
    """jobs: list of kwargs dicts for run_driver; returns results in order."""
    with ThreadPoolExecutor(max_workers=NCPU) as ex:
        futs = [ex.submit(run_driver, **j) for j in jobs]
        return [f.result() for f in futs]
