#!/bin/sh
# Offline setup: nothing is fetched or installed.  Parse every specification module with
# SANY so that a broken spec is reported here and not in the middle of a check.
set -e
cd "$(dirname "$0")"
chmod +x check
rc=0
cd spec
for f in *.tla; do
  if ! java -cp /opt/veriftools/tla/tla2tools.jar:/opt/veriftools/tla/CommunityModules-deps.jar tla2sany.SANY "$f" > /tmp/sany.$$ 2>&1 \
     || grep -q -e "Semantic errors" -e "Parse Error" -e "Fatal" /tmp/sany.$$; then
    echo "SANY failed on $f"; cat /tmp/sany.$$; rc=1
  fi
done
rm -f /tmp/sany.$$
/venv/bin/python -c "import sys; sys.path.insert(0, '/repo'); import labella; import intervaltree" || rc=1
echo "setup done rc=$rc"
exit $rc
