#!/usr/bin/env python3
"""Development aid (not a registered check): run checks against a scratch worktree with a BENIGN change applied (one that keeps
every property true): every check must exit 0.

  tools/try_benign.py <worktree> <diff> <property id> [more ids...]"""
import json
import os
import subprocess
import sys
import time

VERIF = os.path.dirname(os.path.dirname(os.path.abspath(__file__)))


def sh(cmd, cwd=None, env=None, timeout=3600):
    p = subprocess.run(cmd, cwd=cwd, env=env, shell=isinstance(cmd, str), stdout=subprocess.PIPE, stderr=subprocess.STDOUT, timeout=timeout)
    return p.returncode, p.stdout.decode("utf-8", "replace")


def main():
    wt, diff = sys.argv[1:3]
    pids = sys.argv[3:]
    res = {"diff": diff, "checks": {}}
    sh("git checkout -q -- .", cwd=wt)
    rc, out = sh(["git", "apply", diff], cwd=wt)
    if rc != 0:
        print("diff does not apply:", out)
        return 2
    try:
        rc, out = sh("timeout 600 /venv/bin/python -m pytest -q -p no:cacheprovider 2>&1 | tail -2", cwd=wt)
        res["tests"] = out.strip().splitlines()[-1] if out.strip() else ""
        cenv = dict(os.environ, VERIF_REPO=wt, VERIF_OUT="/tmp/verif_bn_out")
        for pid in pids:
            t0 = time.time()
            rc, out = sh([os.path.join(VERIF, "check"), pid], cwd=VERIF, env=cenv)
            lines = [l.strip() for l in out.splitlines() if l.strip() and not l.startswith("WARNING")]
            res["checks"][pid] = {"exit": rc, "clauses": sorted({l for l in lines if l.startswith("clause:")})[:6],
                                  "tail": lines[-1][:400] if lines else "", "wall_s": round(time.time() - t0, 1)}
    finally:
        sh("git checkout -q -- .", cwd=wt)
    print(json.dumps(res, indent=1))
    return 0


if __name__ == "__main__":
    sys.exit(main())
