#!/usr/bin/env python3
"""Development aid: run every kept seeded change under /verif/seeded against the check of its property.

  tools/run_seeded.py [ids...]      writes seeded/RESULTS.json

Uses a scratch git worktree of /repo under /tmp (created and removed here); /repo itself is never touched."""
import json
import os
import subprocess
import sys

VERIF = os.path.dirname(os.path.dirname(os.path.abspath(__file__)))
WT = "/tmp/verif_seeded_wt_%d" % os.getpid()


def main():
    shard = None
    if len(sys.argv) > 2 and sys.argv[1] == "--shard":          # --shard k/n : the properties whose number is k mod n
        k, n = [int(x) for x in sys.argv[2].split("/")]
        shard = (k, n)
        del sys.argv[1:3]
    ids = sys.argv[1:] or sorted(d for d in os.listdir(os.path.join(VERIF, "seeded")) if os.path.isdir(os.path.join(VERIF, "seeded", d)) and not d.startswith("_"))
    if shard:
        ids = [i for i in ids if int(i[1:3]) % shard[1] == shard[0]]
    subprocess.check_call(["git", "-C", "/repo", "worktree", "add", "-q", "--detach", WT, "HEAD"])
    results = {}
    path = os.path.join(VERIF, "seeded", "RESULTS.json" if not shard else "RESULTS.%d.json" % shard[0])
    if os.path.exists(path) and sys.argv[1:]:
        results = json.load(open(path))
    try:
        for sid in ids:
            d = os.path.join(VERIF, "seeded", sid)
            meta = json.load(open(os.path.join(d, "meta.json")))
            p = subprocess.run([sys.executable, os.path.join(VERIF, "tools", "try_mutant.py"), WT, os.path.join(d, "patch.diff"),
                                os.path.join(d, "demo.py"), meta["property"]], stdout=subprocess.PIPE, stderr=subprocess.STDOUT)
            try:
                r = json.loads(p.stdout.decode())
                c = r["checks"][meta["property"]]
                results[sid] = {"property": meta["property"], "tests": r.get("tests"), "demo_clean": r.get("demo_on_clean"),
                                "demo_mutant": r.get("demo_on_mutant"), "check_exit": c["exit"], "clauses": c["clauses"], "wall_s": c["wall_s"]}
            except Exception as ex:
                results[sid] = {"error": str(ex), "raw": p.stdout.decode()[-400:]}
            print(sid, results[sid].get("check_exit"), results[sid].get("clauses", [])[:2], flush=True)
            json.dump(results, open(path, "w"), indent=1, sort_keys=True)
    finally:
        subprocess.call(["git", "-C", "/repo", "worktree", "remove", "--force", WT])
    return 0


if __name__ == "__main__":
    sys.exit(main())
