#!/usr/bin/env python3
"""Development aid: file a confirmed seeded change under /verif/seeded/<id>/.

  tools/keep_seeded.py <dir with patch.diff demo.py meta.json result.json> <id> <round text>

result.json is the output of tools/try_mutant.py (tests pass, demo 0 on clean / 1 with the change)."""
import json
import os
import shutil
import sys

VERIF = os.path.dirname(os.path.dirname(os.path.abspath(__file__)))


def main():
    src, sid, source = sys.argv[1:4]
    meta = json.load(open(os.path.join(src, "meta.json")))
    res = json.load(open(os.path.join(src, "result.json")))
    assert res["demo_on_clean"] == 0 and res["demo_on_mutant"] == 1 and "passed" in res["tests"] and "failed" not in res["tests"], res
    dst = os.path.join(VERIF, "seeded", sid)
    os.makedirs(dst, exist_ok=True)
    shutil.copy(os.path.join(src, "patch.diff"), os.path.join(dst, "patch.diff"))
    shutil.copy(os.path.join(src, "demo.py"), os.path.join(dst, "demo.py"))
    out = {"id": sid, "property": meta["property"], "change": meta["change"], "needs_to_manifest": meta["needs_to_manifest"],
           "source": source,
           "confirmed": {"applies_to": "repo HEAD e78337a (14 fix: commits)", "existing_tests": res["tests"],
                         "demo": "exit 0 on the clean tree, exit 1 with the change",
                         "command": "tools/try_mutant.py <worktree> patch.diff demo.py %s" % meta["property"]}}
    json.dump(out, open(os.path.join(dst, "meta.json"), "w"), indent=1)
    print("kept", sid)


if __name__ == "__main__":
    main()
