#!/usr/bin/env python3
"""Development aid (not a registered check): run checks against a scratch worktree of the repository with a
candidate change applied.

  tools/try_mutant.py <worktree> <diff> <demo.py> <property id> [more ids...]

Steps: clean worktree; demo must pass; apply diff; baseline tests must pass; demo must fail; each listed check is run
with VERIF_REPO=<worktree> (evidence/replays redirected to /tmp/verif_mut_out); worktree restored."""
import json
import os
import subprocess
import sys
import time

VERIF = os.path.dirname(os.path.dirname(os.path.abspath(__file__)))


def sh(cmd, cwd=None, env=None, timeout=3600):
    p = subprocess.run(cmd, cwd=cwd, env=env, shell=isinstance(cmd, str), stdout=subprocess.PIPE, stderr=subprocess.STDOUT, timeout=timeout)
    return p.returncode, p.stdout.decode("utf-8", "replace")


def main():
    wt, diff, demo = sys.argv[1:4]
    pids = sys.argv[4:]
    res = {"worktree": wt, "diff": diff, "demo": demo, "checks": {}}
    sh("git checkout -q -- .", cwd=wt)
    env = dict(os.environ, PYTHONPATH=wt, PYTHONHASHSEED="0", TZ="UTC")
    rc, out = sh(["/venv/bin/python", demo], cwd=wt, env=env)
    res["demo_on_clean"] = rc
    rc, out = sh(["git", "apply", diff], cwd=wt)
    if rc != 0:
        print("diff does not apply:", out)
        return 2
    try:
        rc, out = sh("/venv/bin/python -m pytest -q -p no:cacheprovider 2>&1 | tail -2", cwd=wt)
        res["tests"] = out.strip().splitlines()[-1] if out.strip() else ""
        rc, out = sh(["/venv/bin/python", demo], cwd=wt, env=env)
        res["demo_on_mutant"] = rc
        res["demo_output"] = out[-400:]
        cenv = dict(os.environ, VERIF_REPO=wt, VERIF_OUT="/tmp/verif_mut_out")
        for pid in pids:
            t0 = time.time()
            rc, out = sh([os.path.join(VERIF, "check"), pid], cwd=VERIF, env=cenv)
            clauses = sorted({l.strip() for l in out.splitlines() if l.strip().startswith("clause:")})
            res["checks"][pid] = {"exit": rc, "clauses": clauses[:6], "tail": out.strip().splitlines()[-1][:300] if out.strip() else "",
                                  "wall_s": round(time.time() - t0, 1)}
    finally:
        sh("git checkout -q -- .", cwd=wt)
    print(json.dumps(res, indent=1))
    return 0


if __name__ == "__main__":
    sys.exit(main())
