#!/usr/bin/env python3
"""Development aid: merge the per-shard result files of tools/run_seeded.py --shard k/n (RESULTS.<k>.json in <dir>) into
/verif/seeded/RESULTS.json (entries of the shards replace older entries with the same id).

  tools/merge_seeded.py <dir with RESULTS.<k>.json>"""
import glob
import json
import os
import sys

VERIF = os.path.dirname(os.path.dirname(os.path.abspath(__file__)))


def main():
    src = sys.argv[1]
    path = os.path.join(VERIF, "seeded", "RESULTS.json")
    res = json.load(open(path)) if os.path.exists(path) else {}
    n = 0
    for f in sorted(glob.glob(os.path.join(src, "RESULTS.[0-9]*.json"))):
        for sid, r in json.load(open(f)).items():
            res[sid] = r
            n += 1
    json.dump(res, open(path, "w"), indent=1, sort_keys=True)
    missed = sorted(s for s, r in res.items() if r.get("check_exit") != 1)
    print("merged %d entries; %d in all; not detected: %s" % (n, len(res), missed))


if __name__ == "__main__":
    main()
