#!/usr/bin/env python3
"""Writes /verif/MANIFEST.json from the table below (single source of truth)."""
import json
import os

HERE = os.path.dirname(os.path.dirname(os.path.abspath(__file__)))
ALL = ["C%02d" % i for i in range(1, 21)]

CLAIMED = {
    "C05": {
        "text": "TLC model-checks the operational model of the solver (spec/Vpsc.tla, exact rationals): every instance on 3 "
                "variables (feasibility, KKT certificate, brute-force optimality over forests, termination), simulation on 5; "
                "the real solver is bound to it by trace validation: every lattice instance and seeded random instances are "
                "solved by labella.vpsc and TLC re-solves each with the model and compares positions, flags and cost. Re-solving "
                "(setDesiredPositions + solve on the structure a previous run left) is the model action Retarget: checked from every end "
                "state of the 3-variable lattice (VpscResolve.tla) and on observed re-solves (small: exact optimum; large: certificates).",
        "note": "Exact optimality inside the 32-bit envelope of the model (<= 8 variables, weights 1..3, scales 1..2); beyond it (to 60 variables, "
                "weights 1e-2..1e10) termination, feasibility, cost consistency and optimality by certificate (a cheaper exactly-feasible point "
                "proposed by the harness and verified by TLC in BigNat = violation). The solver's internal steps are wrapped at run time and "
                "validated against the model's actions (VpscSteps.tla; drift only). Cost consistency is also decided at full float precision (displacements in 1e-12, BigNat). Reachability witnesses guard against vacuity (every action of the model must be taken). Known finding F-05m: 1e10 weights at desired positions of 1e8 and beyond (pinned instances). Trusted: TLC, the float -> integer projection.",
        "technique": "TLA+ operational model + TLC exhaustive/simulation; trace validation of real solver runs against the model's certified optimum",
        "design_ref": "DESIGN.md section 8 (C05)",
    },
}

CLAIMED.update({
    "C01": {
        "text": "TLC checks on the layer model (spec/Chain.tla, MCChain.tla) that every admissible integer rounding of the exact optimum keeps "
                "neighbours separated to within the stated 1 unit and in target order (so the slack is derived), and validates every "
                "Force.compute() record from the real code (bounded lattice exhaustively strided, random, 200-label clusters, bounds, floats, two-decimal values, far-away coordinates 1e7..1e13, several independent layouts in one process with decoy engines, re-laid-out and re-measured labels, direct removeOverlap calls) "
                "against the separation/order predicates, all pairs.",
        "note": "Widths and positions enter TLC as integers (1/4 units on the lattice, 1/1000 with widths rounded down for floats). The literal "
                "all-pairs reading has a known finding (F-01, nodeSpacing < 1); every other pair is still checked.",
        "technique": "TLA+ layer model checked by TLC; trace validation of Force.compute() records against the spec's predicates",
        "design_ref": "DESIGN.md section 8 (C01)",
    },
    "C02": {
        "text": "The exact least-squares optimum of a layer is specified functionally (pool-adjacent-violators + wall clipping, Chain.tla); TLC proves on "
                "the bounded chain lattice that it carries a KKT certificate and equals the fix-point of the operational solver model Vpsc.tla, and "
                "then evaluates |position - optimum| <= 0.5 on every fitting layer of every lattice-valued layout observed from the real code, "
                "re-certifying the optimum by KKT per record.",
        "note": "Lattice-valued inputs (multiples of 1/4, or two-decimal values exact in 1/200) are compared with the optimum; ties of different width use the solver's chain order "
                "from Force.getLayers(). Reported alongside (drift only): the end-to-end model Layout.tla (Distributor -> optimum -> rounding, list order, half-even, wall give) predicts every fresh lattice layout item by item."+
                "",
        "technique": "TLA+ functional optimum + KKT certificate checked by TLC; refinement check against the solver model; trace validation",
        "design_ref": "DESIGN.md section 8 (C02)",
    },
    "C03": {
        "text": "TLC shows on the chain lattice that every rounding of the optimum stays within 0.5 of the walls when the layer fits, and evaluates "
                "Inside / SpillKeepsSeparation on every layer of layouts observed from the real code with bounds synthesised around the exact "
                "required width (exact fit, +-0.5, -1, -10).",
        "note": "Same projection as C01.",
        "technique": "TLA+ layer model checked by TLC; trace validation of Force.compute() records",
        "design_ref": "DESIGN.md section 8 (C03)",
    },
    "C04": {
        "text": "Structural predicates (conservation, contiguity, one stub per nearer layer, parent/child linkage, stub payload, reported layering, "
                "single-layer rule, capacity) are evaluated by TLC on every Force.compute() record (objects walked through public attributes).",
        "note": "The operational layering model spec/Distributor.tla is model-checked (conservation, capacity, single-layer rule) and every fresh lattice "
                "layering observed from the code is compared with it (drift is reported, the verdict comes from the structural predicates); "
                "records include re-layouts on a reused engine and budgets hit exactly.",
        "technique": "trace validation of Force.compute() records against TLA+ structural predicates (TLC)",
        "design_ref": "DESIGN.md section 8 (C04)",
    },
    "C06": {
        "text": "TLC enumerates every call history (set-labels / set-options / compute / foreign-compute / re-measure) of the engine model Engine.tla up to a bound; "
                "each maximal history is replayed on one real Force and every compute is compared with a fresh engine on fresh labels for the "
                "configuration the model predicts (accumulated options, current measurements of the label objects) AND with a layout computed in a process "
                "that has no history at all (forked before the first library call); seeded random longer histories are validated the same way.",
        "note": "The model abstracts the layout function (specified in Chain/Vpsc) and tracks only cross-call state; stale aspects are modelled as flags. "
                "Reported alongside (drift only, no verdict): conformance of labella.node.Node with the heap model NodeHeap.tla along TLC-generated "
                "and random call histories (every observer of every node after every call).",
        "technique": "TLA+ history model; TLC-generated histories replayed into the code; trace validation of recorded histories",
        "design_ref": "DESIGN.md section 8 (C06)",
    },
})

CLAIMED.update({
    "C12": {
        "text": "Heap model of LinearScale objects (spec/LinScale.tla: list cells, snapshots, in-place nice, copy) model-checked by TLC over all call "
                "histories up to a bound (EndpointsMap invariant, CopyIndependent action property; the shared-list variant gives a counterexample); "
                "every maximal TLC history is replayed on real scales and validated step by step; the functional laws (exact end points, affine, "
                "monotone, inverse, clamp) are evaluated by TLC in exact BigNat arithmetic on grid instances embedded at decades 1e-6..1e9.",
        "note": "Float behaviour is reached through embedded lattice instances and random samples, not by enumerating doubles.",
        "technique": "TLA+ heap/history model + TLC; TLC-generated histories replayed into the code; trace validation with exact arithmetic",
        "design_ref": "DESIGN.md section 8 (C12)",
    },
    "C13": {
        "text": "TLC proves the tick-step, completeness and count-bound laws on every integer domain of a grid x every m (spec/LinTicks.tla, scale-free "
                "in powers of ten), and evaluates the declarative predicates (step form, multiples, in-domain, complete, count bounds, labels distinct "
                "and reading back) on tick lists and labels observed from LinearScale.ticks/tickFormat at decades 1e-6..1e9 and on random floats.",
        "note": "Floats are projected to integers in units of a thousandth of the step (relative to a multiple of the step for domains millions of steps from zero); the step's (mantissa, exponent) is a harness-proposed "
                "certificate validated by TLC. 'Inside the domain up to floating-point effects' is also judged at float resolution (excess of the outermost ticks against four roundings per tick). Observed tick lists are second answers, after the caller edited the first.",
        "technique": "TLA+ tick model checked exhaustively by TLC; trace validation of ticks()/tickFormat() records",
        "design_ref": "DESIGN.md section 8 (C13)",
    },
})

CLAIMED.update({
    "C14": {
        "text": "Linear: TLC proves NeverInward / LessThanTwoSteps / OnTenthOfStep for the two-pass nice on every integer domain of a grid x m "
                "(spec/LinTicks.tla) and evaluates the same predicates on nice() results observed from LinearScale at decades 1e-6..1e9 and on random "
                "floats. Time: the predicates (never inward, orientation, less than two tick steps of the original ticks, aligned to the calendar "
                "class of the tick spacing via spec/Calendar.tla) are evaluated by TLC on TimeScale.nice() results for curated and random domains.",
        "note": "Known finding F-14L (float noise double-widening in LinearScale.nice) is exempted only for its exact pattern, decided by TLC. Inward movement is also judged at float resolution (domains with ends a hair outside a multiple of the step).",
        "technique": "TLA+ tick/nice model checked exhaustively by TLC; trace validation of nice() records (linear and time)",
        "design_ref": "DESIGN.md section 8 (C14)",
    },
    "C15": {
        "text": "TLC evaluates, in exact BigNat arithmetic on milliseconds since the epoch, that every mapped position observed from TimeScale is the "
                "affine image of elapsed time (cross-multiplied), end points map exactly, later instants map strictly farther, invert returns the "
                "instant within 1 ms, and the result agrees with a LinearScale on epoch milliseconds; Tz.tla shows at design level why local-time "
                "conversions would break proportionality. Call histories (domain/range/clamp/nice/copy/ticks on up to 4 scales) generated from "
                "the scale heap model's state graph and at random are replayed on real TimeScale objects: after every call every scale must "
                "map the end points of the domain it reports onto the range it reports.",
        "note": "Floats carried exactly (x 1e9) as BigNat; tolerance 1e-9 of the range magnitude times the extrapolation factor. A slice of the "
                "records is taken with the process in a DST zone (the local zone is no input of the property).",
        "technique": "trace validation of TimeScale call/return records with exact arithmetic in TLA+ (TLC); small TLA+ zone model",
        "design_ref": "DESIGN.md section 8 (C15)",
    },
    "C16": {
        "text": "Declarative tick predicates (defined, strictly increasing, in domain, calendar-boundary class implied by the spacing, gap ratio <= 2, "
                "count bounds) are evaluated by TLC with spec/Calendar.tla on TimeScale.ticks() results for a curated lattice of start instants x "
                "span ladder (1 ms..250 y) x counts and for seeded random domains biased to month ends.",
        "note": "The operational tick model spec/TimeTicks.tla (bisect in BigNat, geometric-mean choice, calendar range) is model-checked for the same "
                "predicates and every observed tick list must be one it admits (drift reported; verdicts come from the declarative predicates).",
        "technique": "trace validation of ticks() records against TLA+ calendar predicates (TLC); calendar model checked by TLC",
        "design_ref": "DESIGN.md section 8 (C16)",
    },
    "C17": {
        "text": "spec/Calendar.tla (civil calendar, seven units, functional floor/ceil/round/offset/range and declarative IsFloor/IsCeil/IsRound/"
                "IsKthFollowing/IsRange) is checked by TLC for self-consistency on every day of 1900-2199; every d3_time call observed from the code "
                "(every day of 300 years at 4 times of day in the thorough tier, every hour of 7 years, random instants) is validated by TLC against "
                "the declarative predicates.",
        "note": "Week ranges only for step 1. The spec's calendar is cross-checked against datetime's civil fields on every record.",
        "technique": "TLA+ calendar model checked by TLC; trace validation of d3_time call/return records",
        "design_ref": "DESIGN.md section 8 (C17)",
    },
    "C18": {
        "text": "The C14-C17 drivers are run under five process time zones with identical seeds; TLC checks (a) that the output digests of every "
                "computation are identical across zones (ZoneTrace.tla) and (b) that every zone's records satisfy the zone-free predicates; Tz.tla "
                "model-checks that zone-free conversions are zone independent and that mktime-style conversions are not.",
        "note": "Zones are POSIX TZ strings. Exported timelines are added to the side-by-side comparison by the timeline checks.",
        "technique": "differential trace validation across process time zones, verdicts by TLC; TLA+ zone model",
        "design_ref": "DESIGN.md section 8 (C18)",
    },
})

CLAIMED.update({
    "C19": {
        "text": "uni2tex is specified as a relation Explains(input, output) over annotated characters plus NFD round-trip (spec/Tex.tla, with canonical "
                "reordering in TLA+); TLC checks the repaired transducer on all strings up to length 4 over nine character classes (and that the "
                "pinned 'accent on the next character' variant fails), and validates the real uni2tex on every code point with a decomposition or "
                "mark category (alone, leading, trailing), on all other code points in pass-through blocks, and on seeded mixed strings.",
        "note": "Unicode data (category, decomposition, NFD, combining class) from Python's unicodedata is trusted; TeX typesetting is not checked.",
        "technique": "TLA+ transducer/relational spec checked by TLC; trace validation of uni2tex call/return records",
        "design_ref": "DESIGN.md section 8 (C19)",
    },
    "C20": {
        "text": "Names.tla defines Name(i) and the shortlex successor; TLC proves Name(i+1) = Succ(Name(i)) for every i up to 10^6 (uniqueness and "
                "enumeration order) and validates int2name(0..N) as successor chains anchored at the spec's Name(i0); colour conversions are "
                "specified on character codes and TLC validates hex2rgb/hex2rgbstr/hex2html on all 22^3 three-digit codes, every channel value "
                "in both cases and seeded six-digit codes.",
        "note": "The full 16.7 M six-digit sweep is not run (channel-wise coverage). Second observation point: the macro names used by the labels, links and dots of TikZ exports (also with data entered twice) must be the k-th name for the k-th datum.",
        "technique": "TLA+ functional spec checked by TLC; trace validation of utils call/return records",
        "design_ref": "DESIGN.md section 8 (C20)",
    },
})

CLAIMED.update({
    "C07": {
        "text": "Both exports of every generated dataset/configuration are parsed into an abstract drawing and TLC evaluates, per back-end: one dot/link/"
                "box per datum, dots and ticks on the exact affine image of the datum's own time (BigNat cross-multiplication on microseconds, so a "
                "lost time of day or sub-millisecond part is visible), dots on the axis line and inside its two ends, link shape (starts at its dot, one curve per layer through the stub positions of the "
                "root path, ends at the middle of the axis-facing edge of its own box), box size, verbatim text, tick text = the formatted value of the tick's position (linear: reads back as the tick value; time: what the "
                "scale's own formatter gives for that tick; the spec's model of the time format is compared as drift only).",
        "note": "Control points of the curves and TeX rendering are not constrained; TikZ texts are compared for texts without accented characters (C19 covers conversion). Data include date, datetime (with microseconds) and datetime.time values, "
                "wall-clock times around daylight-saving changes, bare markers of width 0.",
        "technique": "trace validation of parsed SVG/TikZ exports against TLA+ drawing predicates (TLC, exact arithmetic); TLA+ render model",
        "design_ref": "DESIGN.md section 8 (C07)",
    },
    "C08": {
        "text": "TLC proves on a lattice with negative and half-integer origins, for the four directions, that a C01-separated layout with label spacing "
                ">= 3 and layer gap >= 1 gives disjoint boxes on the named side in layer order after integer truncation (spacing 2 gives a "
                "counterexample), and evaluates Disjoint / Side / LayerOrder on the boxes parsed from both exports of generated datasets.",
        "note": "Assume-guarantee with C01 at the design level; on the code side the boxes themselves are checked.",
        "technique": "TLA+ render model checked by TLC; trace validation of parsed exports",
        "design_ref": "DESIGN.md section 8 (C08)",
    },
    "C09": {
        "text": "For deep-copied identical inputs the SVG and the TikZ document are parsed and TLC evaluates SameGeometry on the pair: axis, box "
                "origins and sizes, link curves point for point as printed, dots, ticks (TikZ truncation within 1 unit) and tick texts, per-datum "
                "colours (rgb() vs HTML hex) and texts; colour options as 3-/6-digit hex, list and function, border on/off.",
        "note": "Main layer only (margins excluded, as the property says).",
        "technique": "differential trace validation of the two emitters, verdict by TLC on the parsed pair",
        "design_ref": "DESIGN.md section 8 (C09)",
    },
    "C10": {
        "text": "Heap model of a process with module-level defaults and several Timeline instances (spec/Timelines.tla) model-checked over all "
                "construct/export histories up to a bound AND, under a view without the history variable, over histories of every length (Isolation, Idempotent; negative variants: shared default scale, shared direction, axis fitted again at export, one object for instances without options); every "
                "maximal TLC history is replayed in one Python process and each export's SHA-256 is compared by TLC with the digest of the same "
                "configuration exported alone in a fresh subprocess; seeded random longer histories likewise.",
        "note": "Equality up to SHA-256 collision. Configurations include nice-sensitive data, timelines starting at the same instant, int/float twins, construction without an options argument.",
        "technique": "TLA+ heap/history model + TLC; TLC-generated histories replayed into the code; trace validation against fresh-process references",
        "design_ref": "DESIGN.md section 8 (C10)",
    },
    "C11": {
        "text": "Pipeline model with a definedness guard per stage (spec/Pipeline.tla) model-checked over the descriptor space (no stuck stage; dropping "
                "the degenerate-domain rule yields a stuck descriptor); every n-th descriptor is concretised and exported with both back-ends and TLC "
                "checks Total and DegenerateAtStart on the outcomes; 150-label cluster inside the claim, 400-label cluster reported as known finding.",
        "note": "Labels carry explicit widths (no LaTeX here).",
        "technique": "TLA+ pipeline model checked by TLC; trace validation of export outcomes over the descriptor space",
        "design_ref": "DESIGN.md section 8 (C11)",
    },
})

NOT_YET = "check not built yet in this round; planned with the TLA+ specification described in DESIGN.md section 8"


def main():
    checks = []
    for pid in ALL:
        if pid not in CLAIMED:
            continue
        c = CLAIMED[pid]
        checks.append({
            "property_id": pid,
            "quick_cmd": "./check %s --tier quick" % pid,
            "thorough_cmd": "./check %s --tier thorough" % pid,
            "evidence_file": "/verif/evidence/%s.json" % pid,
            "replay_cmd_template": "./check %s --replay {path}" % pid,
            "engine": "tlc",
            "level_claimed": {"category": "model_checking", "text": c["text"], "design_ref": c["design_ref"]},
            "level_note": c["note"],
            "technique": c["technique"],
        })
    na = [{"property_id": p, "reason": NOT_YET} for p in ALL if p not in CLAIMED]
    man = {
        "version": 1,
        "setup_cmd": "./setup.sh",
        "hooks": {
            "guard": "LABELLA_VERIF",
            "enable": "no source hooks: every observation uses the public API; fine-grain events are obtained by wrapping "
                      "attributes at run time inside the harness process only",
            "baseline_off_cmd": "cd /repo && /venv/bin/python -m pytest -ra -q -p no:cacheprovider --timeout=900 --continue-on-collection-errors",
            "source_commits": [],
            "add_only": True,
        },
        "engines": [{"name": "tlc", "path": "/verif/check", "serves_properties": [c["property_id"] for c in checks],
                     "kind_free_text": "TLA+ specifications in /verif/spec checked by TLC 1.8; Python harness drives the real "
                                       "code and feeds ndjson traces to TLC trace specifications"}],
        "checks": checks,
        "not_applicable": na,
        "notes": "Exit 2 = machinery failure (no verdict). known_findings.json lists genuine defects (fixed ones suppress nothing).",
    }
    with open(os.path.join(HERE, "MANIFEST.json"), "w") as f:
        json.dump(man, f, indent=1)
        f.write("\n")


if __name__ == "__main__":
    main()
