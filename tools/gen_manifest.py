#!/usr/bin/env python3
"""Writes /verif/MANIFEST.json from the table below (single source of truth)."""
import json
import os

HERE = os.path.dirname(os.path.dirname(os.path.abspath(__file__)))
ALL = ["C%02d" % i for i in range(1, 21)]

CLAIMED = {
    "C05": {
        "text": "TLC model-checks the operational model of the solver (spec/Vpsc.tla, exact rationals): every instance on 3 "
                "variables (feasibility, KKT certificate, brute-force optimality over forests, termination), simulation on 5; "
                "the real solver is bound to it by trace validation: every lattice instance and seeded random instances are "
                "solved by labella.vpsc and TLC re-solves each with the model and compares positions, flags and cost.",
        "note": "Exact optimality only inside the 32-bit envelope of the model (<= 8 variables, weights 1..3, scales 1..2); "
                "larger instances (to 60 variables, weights 1e-2..1e10) get termination, feasibility and cost consistency. "
                "Trusted: TLC, the JSON projection float -> scaled integer in harness/drivers/d_vpsc.py.",
        "technique": "TLA+ operational model + TLC exhaustive/simulation; trace validation of real solver runs against the model's certified optimum",
        "design_ref": "DESIGN.md section 8 (C05)",
    },
}

NOT_YET = "check not built yet in this round; planned with the TLA+ specification described in DESIGN.md section 8"


def main():
    checks = []
    for pid in ALL:
        if pid not in CLAIMED:
            continue
        c = CLAIMED[pid]
        checks.append({
            "property_id": pid,
            "quick_cmd": "./check %s --tier quick" % pid,
            "thorough_cmd": "./check %s --tier thorough" % pid,
            "evidence_file": "/verif/evidence/%s.json" % pid,
            "replay_cmd_template": "./check %s --replay {path}" % pid,
            "engine": "tlc",
            "level_claimed": {"category": "model_checking", "text": c["text"], "design_ref": c["design_ref"]},
            "level_note": c["note"],
            "technique": c["technique"],
        })
    na = [{"property_id": p, "reason": NOT_YET} for p in ALL if p not in CLAIMED]
    man = {
        "version": 1,
        "setup_cmd": "./setup.sh",
        "hooks": {
            "guard": "LABELLA_VERIF",
            "enable": "no source hooks: every observation uses the public API; fine-grain events are obtained by wrapping "
                      "attributes at run time inside the harness process only",
            "baseline_off_cmd": "cd /repo && /venv/bin/python -m pytest -ra -q -p no:cacheprovider --timeout=900 --continue-on-collection-errors",
            "source_commits": [],
            "add_only": True,
        },
        "engines": [{"name": "tlc", "path": "/verif/check", "serves_properties": [c["property_id"] for c in checks],
                     "kind_free_text": "TLA+ specifications in /verif/spec checked by TLC 1.8; Python harness drives the real "
                                       "code and feeds ndjson traces to TLC trace specifications"}],
        "checks": checks,
        "not_applicable": na,
        "notes": "Exit 2 = machinery failure (no verdict). known_findings.json lists genuine defects (fixed ones suppress nothing).",
    }
    with open(os.path.join(HERE, "MANIFEST.json"), "w") as f:
        json.dump(man, f, indent=1)
        f.write("\n")


if __name__ == "__main__":
    main()
